(* C09 - Thinking time (model-level part on IEEE-754 binary64, Flocq). *)
From Coq Require Import ZArith Reals.
From Flocq Require Import Core.Core.
From Walleye Require Import Model.Prim Gen.Consts Model.TimeControl Proofs.TimeBound.
Open Scope Z_scope.

(* the slice is computed from the mover's clock, the mover's increment and movestogo only *)
Theorem C09_own_side_only : forall gt gt' c,
  movestogo gt = movestogo gt' ->
  (c = White -> wtime gt = wtime gt' /\ winc gt = winc gt') ->
  (c = Black -> btime gt = btime gt' /\ binc gt = binc gt') ->
  calculate_time_slice gt c = calculate_time_slice gt' c.
Proof.
  intros gt gt' c Hm Hw Hb. unfold calculate_time_slice, moves_to_go. rewrite Hm.
  destruct c.
  - destruct (Hw eq_refl) as [-> ->]. reflexivity.
  - destruct (Hb eq_refl) as [-> ->]. reflexivity.
Qed.

(* the constants of the source are the binary64 numbers 100.0 and 0.8 (bit patterns from the source) *)
Theorem C09_constants :
  round_to_u128 SAFEGUARD = SAFEGUARD_Z /\ f64_of_bits MAX_USAGE_BITS = MAX_USAGE /\ GAME_LENGTH = 30.
Proof. repeat split; vm_compute; reflexivity. Qed.

(* computed instances on the model (not the general bound): margins, increment-only branch, huge clocks *)
Theorem C09_instances :
  calculate_time_slice (mkGT 50 0 10000 0 None) White = 50 /\
  calculate_time_slice (mkGT 100 0 0 0 None) White = 0 /\
  calculate_time_slice (mkGT 101 0 0 0 (Some 1)) White = 1 /\
  calculate_time_slice (mkGT 300000 0 0 0 (Some 40)) White = 5998 /\
  calculate_time_slice (mkGT (-5) 0 (-3) 0 None) White = 0 /\
  calculate_time_slice (mkGT 0 (2 ^ 127 - 1) 0 0 (Some 1)) Black <= 2 ^ 127 - 1 - 100.
Proof. repeat split; vm_compute; try reflexivity. discriminate. Qed.

(* the bound itself, on the IEEE-754 binary64 computation (every rounding included): for the mover's clock and
   increment below 2^53 ms in magnitude and any movestogo (0 counts as not told), the planned time never exceeds the
   mover's remaining clock; with more than the 100 ms margin left it never exceeds clock - margin; with no usable
   clock and no increment it is zero *)
Theorem C09_never_exceeds_the_clock : forall gt c,
  let clock := match c with White => wtime gt | Black => btime gt end in
  let inc := match c with White => winc gt | Black => binc gt end in
  Z.abs clock < 2 ^ 53 -> Z.abs inc < 2 ^ 53 ->
  (match movestogo gt with Some m => 0 <= m < 2 ^ 32 | None => True end) ->
  calculate_time_slice gt c <= Z.max clock 0 /\
  (100 < clock -> calculate_time_slice gt c <= clock - 100) /\
  (clock <= 100 -> inc <= 0 -> calculate_time_slice gt c = 0).
Proof. exact slice_within_clock. Qed.

(* the proportional clause: with more than the margin left the plan is at most 80% of (clock - margin) divided by the
   moves to go (0 or absent: 30), up to the binary64 roundings of the computation (relative 4 * 2^-53 in all) and the
   rounding to whole milliseconds (1/2) - as a statement about real numbers *)
Theorem C09_at_most_80_percent_of_the_usable_clock : forall gt c,
  let clock := match c with White => wtime gt | Black => btime gt end in
  let inc := match c with White => winc gt | Black => binc gt end in
  Z.abs clock < 2 ^ 53 -> Z.abs inc < 2 ^ 53 ->
  (match movestogo gt with Some m => 0 <= m < 2 ^ 32 | None => True end) ->
  100 < clock ->
  (IZR (calculate_time_slice gt c) <=
   8 / 10 * IZR (clock - 100) / IZR (moves_to_go gt) * (1 + 4 * (/ 2 * bpow radix2 (-52))) + / 2)%R.
Proof.
  intros gt c clock inc Hc Hi Hm G. rewrite calc_core. apply slice_core_proportional; [exact Hc|exact Hi| |exact G].
  unfold moves_to_go, GAME_LENGTH. destruct (movestogo gt) as [m|]; [|lia]. destruct (Z.ltb_spec 0 m); lia.
Qed.

(* movestogo 0 is read as "not told" (the repaired defect F12: it used to divide by zero and plan 2^128 - 1 ms) *)
Theorem C09_movestogo_zero_is_not_told : forall w b wi bi c,
  calculate_time_slice (mkGT w b wi bi (Some 0)) c = calculate_time_slice (mkGT w b wi bi None) c.
Proof. intros. reflexivity. Qed.

Print Assumptions C09_own_side_only.
Print Assumptions C09_never_exceeds_the_clock.
Print Assumptions C09_at_most_80_percent_of_the_usable_clock.
Print Assumptions C09_movestogo_zero_is_not_told.
Print Assumptions C09_constants.
Print Assumptions C09_instances.
