(* C06 - Check detection agrees with the rules (model-level part: the sentinel ray walk).
   Agreement of is_check with the rules' `attacked` for both colours is decided by the correspondence
   with Spec.in_check on exhaustive attacker/blocker geometry and random placements (legal or not).
   The theorems below hold for every board content and every direction. *)
From Walleye Require Import Model.Check Proofs.Cells Proofs.Ray.
Open Scope Z_scope.

(* what the walk returns is the first non-empty square along the ray: sliders are stopped by the
   first piece in their way *)
Theorem C06_walk_finds_first_piece : forall fuel b d p s,
  walk fuel b p d = Some s ->
  exists k, 0 <= k < Z.of_nat fuel /\ s = get b (at_dist p d k) /\ is_empty s = false /\
            forall j, 0 <= j < k -> is_empty (get b (at_dist p d j)) = true.
Proof. intros fuel b d p s. exact (walk_sound fuel b d p s). Qed.

(* and conversely the first non-empty square, if within reach, is what the walk returns *)
Theorem C06_walk_complete : forall fuel b d p k,
  0 <= k < Z.of_nat fuel ->
  is_empty (get b (at_dist p d k)) = false ->
  (forall j, 0 <= j < k -> is_empty (get b (at_dist p d j)) = true) ->
  walk fuel b p d = Some (get b (at_dist p d k)).
Proof. intros fuel b d p k. exact (walk_complete fuel b d p k). Qed.

(* with the sentinel ring in place the walk from any inner square along any unit direction ends
   within the fuel the model gives it (in the Rust code: it never indexes outside the array) *)
Theorem C06_walk_terminates : forall b p d,
  ring_ok b -> is_inner p = true -> unit_dir d -> walk 12 b (padd p d) d <> None.
Proof. exact walk_terminates. Qed.

Theorem C06_directions_are_unit :
  Forall unit_dir ROOK_DIRS_CHK /\ Forall unit_dir BISHOP_DIRS_CHK /\ Forall unit_dir ROOK_DIRS_GEN /\ Forall unit_dir BISHOP_DIRS_GEN.
Proof. exact dirs_are_unit. Qed.

Print Assumptions C06_walk_finds_first_piece.
Print Assumptions C06_walk_complete.
Print Assumptions C06_walk_terminates.
Print Assumptions C06_directions_are_unit.
