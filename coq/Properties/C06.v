(* C06 - Check detection agrees with the rules for both sides in every position.
   Proved without bound: for every content of the 144 cells with the sentinel ring in place and the two
   king caches pointing at the (unique) kings, and for both colours, the model's is_check equals the rules'
   `attacked` relation on the abstracted 8x8 placement: sliders stopped by the first piece in their way,
   pawns attacking diagonally forward only, knights, an adjacent king.  No assumption on whose turn it is,
   on the other pieces, or on legality of the placement. *)
From Walleye Require Import Model.Check Model.Fen Spec.Abs Proofs.Cells Proofs.Ray Proofs.CheckProofs Gen.ZobristTable.
From Walleye Require Import Model.TextMove Spec.Chess Proofs.GenerateAbs Proofs.LegalMoves Proofs.MakeMoveSame Proofs.PositionGo.
Open Scope Z_scope.

Theorem C06_is_check_correct : forall s c,
  cells_ok (board s) -> kings_ok s ->
  is_check s c = in_check (abs_placement (board s)) c.
Proof. exact is_check_correct. Qed.

(* non-vacuity: the hypotheses hold of the start position and of a position with both kings in the open,
   loaded by the model's FEN loader (boards the generators then keep well-formed: checked by the correspondence) *)
Example C06_hypotheses_hold_of_loaded_positions :
  match from_fen zt_concrete DEFAULT_FEN_STRING with
  | Ok s => cells_ok (board s) /\ kings_ok s /\ is_check s White = false /\ is_check s Black = false
  | _ => False
  end.
Proof.
  destruct (from_fen zt_concrete DEFAULT_FEN_STRING) as [s| |] eqn:E; [|vm_compute in E; discriminate|vm_compute in E; discriminate].
  assert (Es : Ok s = from_fen zt_concrete DEFAULT_FEN_STRING) by (symmetry; exact E).
  vm_compute in Es. injection Es as ->.
  split; [apply wf_cells_ok; vm_compute; reflexivity|].
  split; [apply kings_okb_ok; vm_compute; reflexivity|].
  split; vm_compute; reflexivity.
Qed.

(* the same for any probed inner square (as castling uses it): the square is attacked by the enemy
   (king included) exactly when the rules say so *)
Theorem C06_probe_correct : forall s c sq,
  cells_ok (board s) -> is_inner sq = true ->
  get (board s) (king_location s (opposite c)) = Full (mkPiece (opposite c) King) ->
  (forall p, get (board s) p = Full (mkPiece (opposite c) King) -> p = king_location s (opposite c)) ->
  king_location s (opposite c) <> sq ->
  is_check_cords s c sq = attacked (abs_placement (board s)) (opposite c) (sq_of_pt sq).
Proof. exact is_check_cords_correct. Qed.

(* the sentinel ray walk: first non-empty square, both directions of the characterisation, termination *)
Theorem C06_walk_finds_first_piece : forall fuel b d p s,
  walk fuel b p d = Some s ->
  exists k, 0 <= k < Z.of_nat fuel /\ s = get b (at_dist p d k) /\ is_empty s = false /\
            forall j, 0 <= j < k -> is_empty (get b (at_dist p d j)) = true.
Proof. intros fuel b d p s. exact (walk_sound fuel b d p s). Qed.

Theorem C06_walk_complete : forall fuel b d p k,
  0 <= k < Z.of_nat fuel ->
  is_empty (get b (at_dist p d k)) = false ->
  (forall j, 0 <= j < k -> is_empty (get b (at_dist p d j)) = true) ->
  walk fuel b p d = Some (get b (at_dist p d k)).
Proof. intros fuel b d p k. exact (walk_complete fuel b d p k). Qed.

Theorem C06_walk_terminates : forall b p d,
  ring_ok b -> is_inner p = true -> unit_dir d -> walk 12 b (padd p d) d <> None.
Proof. exact walk_terminates. Qed.

Theorem C06_directions_are_unit :
  Forall unit_dir ROOK_DIRS_CHK /\ Forall unit_dir BISHOP_DIRS_CHK /\ Forall unit_dir ROOK_DIRS_GEN /\ Forall unit_dir BISHOP_DIRS_GEN.
Proof. exact dirs_are_unit. Qed.

(* ... and so on the boards the text-move applier builds (its king caches are what every check test reads): after
   `position fen F moves ...` / `position startpos moves ...` with legal moves, is_check on the board the command leaves
   behind is the rules' "in check" of the position the command describes, for both colours *)
Theorem C06_after_a_position_fen_command : forall zt cmds c7 b0 mvs,
  nth_error cmds 1 = Some str_fen -> nth_error cmds 7 = Some c7 ->
  from_fen zt (flat_map (fun c => c ++ [32%N]) (firstn 5 (skipn 2 cmds)) ++ c7) = Ok b0 ->
  legal_position (abs b0) = true -> moves_part cmds mvs -> legal_chain (abs b0) mvs ->
  exists b t, play_out_position zt cmds = Ok (b, t) /\
    forall c, is_check b c = in_check (pos_pl (fold_left apply mvs (abs b0))) c.
Proof.
  intros zt cmds c7 b0 mvs N1 N7 F LP MP LC.
  destruct (position_fen_command zt cmds c7 b0 mvs N1 N7 F LP MP LC) as (b & t & PL & A & PO & _).
  exists b, t. split; [exact PL|]. intros c. rewrite <- A. destruct PO as [(CO & KO & _) _]. exact (is_check_correct b c CO KO).
Qed.
Theorem C06_after_a_position_startpos_command : forall zt cmds c1 mvs,
  nth_error cmds 1 = Some c1 -> str_eqb c1 str_fen = false ->
  moves_part cmds mvs -> legal_chain start_position mvs ->
  exists b t, play_out_position zt cmds = Ok (b, t) /\
    forall c, is_check b c = in_check (pos_pl (fold_left apply mvs start_position)) c.
Proof.
  intros zt cmds c1 mvs N1 NF MP LC.
  destruct (position_startpos_command zt cmds c1 mvs N1 NF MP LC) as (b & t & PL & A & PO & _).
  exists b, t. split; [exact PL|]. intros c. rewrite <- A. destruct PO as [(CO & KO & _) _]. exact (is_check_correct b c CO KO).
Qed.

Print Assumptions C06_after_a_position_fen_command.
Print Assumptions C06_after_a_position_startpos_command.
Print Assumptions C06_is_check_correct.
Print Assumptions C06_probe_correct.
Print Assumptions C06_walk_finds_first_piece.
Print Assumptions C06_walk_complete.
Print Assumptions C06_walk_terminates.
Print Assumptions C06_directions_are_unit.
