(* C06 - Check detection agrees with the rules for both sides in every position.
   Proved without bound: for every content of the 144 cells with the sentinel ring in place and the two
   king caches pointing at the (unique) kings, and for both colours, the model's is_check equals the rules'
   `attacked` relation on the abstracted 8x8 placement: sliders stopped by the first piece in their way,
   pawns attacking diagonally forward only, knights, an adjacent king.  No assumption on whose turn it is,
   on the other pieces, or on legality of the placement. *)
From Walleye Require Import Model.Check Model.Fen Spec.Abs Proofs.Cells Proofs.Ray Proofs.CheckProofs Gen.ZobristTable.
Open Scope Z_scope.

Theorem C06_is_check_correct : forall s c,
  cells_ok (board s) -> kings_ok s ->
  is_check s c = in_check (abs_placement (board s)) c.
Proof. exact is_check_correct. Qed.

(* non-vacuity: the hypotheses hold of the start position and of a position with both kings in the open,
   loaded by the model's FEN loader (boards the generators then keep well-formed: checked by the correspondence) *)
Example C06_hypotheses_hold_of_loaded_positions :
  match from_fen zt_concrete DEFAULT_FEN_STRING with
  | Ok s => cells_ok (board s) /\ kings_ok s /\ is_check s White = false /\ is_check s Black = false
  | _ => False
  end.
Proof.
  destruct (from_fen zt_concrete DEFAULT_FEN_STRING) as [s| |] eqn:E; [|vm_compute in E; discriminate|vm_compute in E; discriminate].
  assert (Es : Ok s = from_fen zt_concrete DEFAULT_FEN_STRING) by (symmetry; exact E).
  vm_compute in Es. injection Es as ->.
  split; [apply wf_cells_ok; vm_compute; reflexivity|].
  split; [apply kings_okb_ok; vm_compute; reflexivity|].
  split; vm_compute; reflexivity.
Qed.

(* the same for any probed inner square (as castling uses it): the square is attacked by the enemy
   (king included) exactly when the rules say so *)
Theorem C06_probe_correct : forall s c sq,
  cells_ok (board s) -> is_inner sq = true ->
  get (board s) (king_location s (opposite c)) = Full (mkPiece (opposite c) King) ->
  (forall p, get (board s) p = Full (mkPiece (opposite c) King) -> p = king_location s (opposite c)) ->
  king_location s (opposite c) <> sq ->
  is_check_cords s c sq = attacked (abs_placement (board s)) (opposite c) (sq_of_pt sq).
Proof. exact is_check_cords_correct. Qed.

(* the sentinel ray walk: first non-empty square, both directions of the characterisation, termination *)
Theorem C06_walk_finds_first_piece : forall fuel b d p s,
  walk fuel b p d = Some s ->
  exists k, 0 <= k < Z.of_nat fuel /\ s = get b (at_dist p d k) /\ is_empty s = false /\
            forall j, 0 <= j < k -> is_empty (get b (at_dist p d j)) = true.
Proof. intros fuel b d p s. exact (walk_sound fuel b d p s). Qed.

Theorem C06_walk_complete : forall fuel b d p k,
  0 <= k < Z.of_nat fuel ->
  is_empty (get b (at_dist p d k)) = false ->
  (forall j, 0 <= j < k -> is_empty (get b (at_dist p d j)) = true) ->
  walk fuel b p d = Some (get b (at_dist p d k)).
Proof. intros fuel b d p k. exact (walk_complete fuel b d p k). Qed.

Theorem C06_walk_terminates : forall b p d,
  ring_ok b -> is_inner p = true -> unit_dir d -> walk 12 b (padd p d) d <> None.
Proof. exact walk_terminates. Qed.

Theorem C06_directions_are_unit :
  Forall unit_dir ROOK_DIRS_CHK /\ Forall unit_dir BISHOP_DIRS_CHK /\ Forall unit_dir ROOK_DIRS_GEN /\ Forall unit_dir BISHOP_DIRS_GEN.
Proof. exact dirs_are_unit. Qed.

Print Assumptions C06_is_check_correct.
Print Assumptions C06_probe_correct.
Print Assumptions C06_walk_finds_first_piece.
Print Assumptions C06_walk_complete.
Print Assumptions C06_walk_terminates.
Print Assumptions C06_directions_are_unit.
