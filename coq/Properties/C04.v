(* C04 - position ... moves ... reconstructs the game position (model-level part).
   Agreement of the replayed position with the rules and with the generator's successors is decided
   by the correspondence checks (position command versus Spec.apply; every generated move printed and
   replayed).  The theorems below are the text-level facts make_move relies on, for every UCI text. *)
From Walleye Require Import Model.TextMove Proofs.TextMoveProofs.
Open Scope N_scope.

(* the substring test on corner squares means "from or to is that corner": 8^4 x 5 texts x 4 corners *)
Theorem C04_contains_corner : forall mv corner,
  In mv uci_texts -> In corner corners ->
  contains mv corner = str_eqb (firstn 2 mv) corner || str_eqb (firstn 2 (skipn 2 mv)) corner.
Proof. exact contains_corner. Qed.

(* the castling texts recognised by make_move are the texts of the generator's castling descriptors *)
Theorem C04_castle_strings_match : 
  WHITE_KING_SIDE_CASTLE_STRING = show_point (fst WHITE_KING_SIDE_CASTLE_ALG) ++ show_point (snd WHITE_KING_SIDE_CASTLE_ALG) /\
  WHITE_QUEEN_SIDE_CASTLE_STRING = show_point (fst WHITE_QUEEN_SIDE_CASTLE_ALG) ++ show_point (snd WHITE_QUEEN_SIDE_CASTLE_ALG) /\
  BLACK_KING_SIDE_CASTLE_STRING = show_point (fst BLACK_KING_SIDE_CASTLE_ALG) ++ show_point (snd BLACK_KING_SIDE_CASTLE_ALG) /\
  BLACK_QUEEN_SIDE_CASTLE_STRING = show_point (fst BLACK_QUEEN_SIDE_CASTLE_ALG) ++ show_point (snd BLACK_QUEEN_SIDE_CASTLE_ALG).
Proof. exact castle_strings_match_alg. Qed.

(* a printed square parses back to itself, for the 64 board squares *)
Theorem C04_point_text_roundtrip :
  forallb (fun p => match point_from_str (show_point p) with Some q => point_eqb p q | None => false end) inner_points = true.
Proof. exact point_text_roundtrip. Qed.

Print Assumptions C04_contains_corner.
Print Assumptions C04_castle_strings_match.
Print Assumptions C04_point_text_roundtrip.
