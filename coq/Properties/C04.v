(* C04 - position ... moves ... reconstructs the game position.
   Proved for every table and every well-formed position (pos_ok1, see C01): for every move the generator
   produces - hence, by C01, for every legal move - replaying the text the engine prints for it with make_move
   succeeds and builds the generator's position: same board, side to move, en-passant target, king squares and
   castling rights (same_pos), hence the position the rules give (C02), with the invariant kept, so that the
   statement chains along any list of legal move texts.  The remaining theorems are the text-level facts
   make_move relies on, for every UCI text.  Tied to the code by the correspondence checks (position command
   versus Spec.apply on every prefix; every generated move printed and replayed). *)
From Walleye Require Import Model.TextMove Spec.Abs Proofs.TextMoveProofs Proofs.GenerateAbs Proofs.LegalMoves Proofs.MakeMove Proofs.MakeMoveSame Proofs.InitialPosition Proofs.PositionGo Gen.ZobristTable.
From Walleye Require Import Model.Fen.
Open Scope N_scope.

Theorem C04_replay_builds_the_generated_position : forall zt s x,
  pos_ok1 s -> In x (generate_moves zt s AllMoves) ->
  exists txt y, best_move_text x = Ok txt /\ make_move zt s txt = Ok y /\ same_pos y x.
Proof. exact replay_builds_generated_position. Qed.

(* ... which is the position the rules give for the move, and again a well-formed position *)
Theorem C04_replay_is_the_rules_position : forall zt s mv,
  pos_ok1 s -> In mv (legal_moves (abs s)) ->
  exists txt y, make_move zt s txt = Ok y /\ abs y = apply (abs s) mv /\ pos_ok1 y.
Proof.
  intros zt s mv PO Hl. destruct (legal_moves_are_generated zt s mv PO Hl) as (x & Hx & Hd).
  destruct (replay_builds_generated_position zt s x PO Hx) as (txt & y & _ & Hy & SP).
  exists txt, y. split; [exact Hy|].
  destruct (generate_moves_abs zt s AllMoves x (proj1 PO) Hx) as (mv' & Hd' & HA). assert (mv' = mv) by congruence. subst mv'.
  split; [rewrite (same_pos_abs y x SP); exact HA|].
  apply (same_pos_pos_ok1 x y SP). exact (Preservation.generator_preserves_pos_ok1 zt s x PO Hx).
Qed.

(* the position command: any list of moves, each legal where it is played, given by their UCI texts, is replayed
   move by move into the position the rules give, and the result is again well-formed (and keeps key = hash) *)
Theorem C04_position_moves_chain : forall zt mvs s t,
  pos_ok1 s -> legal_chain (abs s) mvs ->
  exists s' t', play_moves zt s t (map text_of_move mvs) = Ok (s', t') /\
                abs s' = fold_left apply mvs (abs s) /\ pos_ok1 s' /\ (HashProofs.key_ok zt s -> HashProofs.key_ok zt s').
Proof. intros zt mvs. exact (position_moves_chain zt mvs). Qed.

(* no hypothesis left: `position startpos moves ...` with any list of moves, each legal where it is played *)
Theorem C04_startpos_moves_are_replayed : forall mvs t,
  legal_chain (abs initial_state) mvs ->
  exists s' t', play_moves zt_concrete initial_state t (map text_of_move mvs) = Ok (s', t') /\
                abs s' = fold_left apply mvs (abs initial_state) /\ pos_ok1 s' /\ HashProofs.key_ok zt_concrete s'.
Proof. exact startpos_moves_are_replayed. Qed.

(* the whole `position` command, for every table: `position fen <six fields> [moves ...]` with any FEN string the
   loader accepts that denotes a legal position (C01's sense) and any list of moves, each legal where it is played,
   builds the position the rules give, well-formed and with key = hash *)
Theorem C04_position_fen_command : forall zt cmds c7 b0 mvs,
  nth_error cmds 1 = Some str_fen -> nth_error cmds 7 = Some c7 ->
  from_fen zt (flat_map (fun c => c ++ [32%N]) (firstn 5 (skipn 2 cmds)) ++ c7) = Ok b0 ->
  legal_position (abs b0) = true -> moves_part cmds mvs -> legal_chain (abs b0) mvs ->
  exists b t, play_out_position zt cmds = Ok (b, t) /\ abs b = fold_left apply mvs (abs b0) /\ pos_ok1 b /\ HashProofs.key_ok zt b.
Proof. exact position_fen_command. Qed.

(* `position startpos [moves ...]` (any second word other than fen), for every table *)
Theorem C04_position_startpos_command : forall zt cmds c1 mvs,
  nth_error cmds 1 = Some c1 -> str_eqb c1 str_fen = false ->
  moves_part cmds mvs -> legal_chain start_position mvs ->
  exists b t, play_out_position zt cmds = Ok (b, t) /\ abs b = fold_left apply mvs start_position /\ pos_ok1 b /\ HashProofs.key_ok zt b.
Proof. exact position_startpos_command. Qed.

(* every UCI text of a board move means to make_move what its squares and promotion letter say: 64 x 64 x 5 texts *)
Theorem C04_text_is_read_correctly : forall zt s a b pr,
  In a inner_points -> In b inner_points -> In pr promos ->
  make_move zt s (move_text a b pr) = make_move_pts zt s a b pr.
Proof. exact make_move_text. Qed.

(* the substring test on corner squares means "from or to is that corner": 8^4 x 5 texts x 4 corners *)
Theorem C04_contains_corner : forall mv corner,
  In mv uci_texts -> In corner corners ->
  contains mv corner = str_eqb (firstn 2 mv) corner || str_eqb (firstn 2 (skipn 2 mv)) corner.
Proof. exact contains_corner. Qed.

(* the castling texts recognised by make_move are the texts of the generator's castling descriptors *)
Theorem C04_castle_strings_match : 
  WHITE_KING_SIDE_CASTLE_STRING = show_point (fst WHITE_KING_SIDE_CASTLE_ALG) ++ show_point (snd WHITE_KING_SIDE_CASTLE_ALG) /\
  WHITE_QUEEN_SIDE_CASTLE_STRING = show_point (fst WHITE_QUEEN_SIDE_CASTLE_ALG) ++ show_point (snd WHITE_QUEEN_SIDE_CASTLE_ALG) /\
  BLACK_KING_SIDE_CASTLE_STRING = show_point (fst BLACK_KING_SIDE_CASTLE_ALG) ++ show_point (snd BLACK_KING_SIDE_CASTLE_ALG) /\
  BLACK_QUEEN_SIDE_CASTLE_STRING = show_point (fst BLACK_QUEEN_SIDE_CASTLE_ALG) ++ show_point (snd BLACK_QUEEN_SIDE_CASTLE_ALG).
Proof. exact castle_strings_match_alg. Qed.

(* a printed square parses back to itself, for the 64 board squares *)
Theorem C04_point_text_roundtrip :
  forallb (fun p => match point_from_str (show_point p) with Some q => point_eqb p q | None => false end) inner_points = true.
Proof. exact point_text_roundtrip. Qed.

Print Assumptions C04_replay_builds_the_generated_position.
Print Assumptions C04_replay_is_the_rules_position.
Print Assumptions C04_position_moves_chain.
Print Assumptions C04_startpos_moves_are_replayed.
Print Assumptions C04_position_fen_command.
Print Assumptions C04_position_startpos_command.
Print Assumptions C04_text_is_read_correctly.
Print Assumptions C04_contains_corner.
Print Assumptions C04_castle_strings_match.
Print Assumptions C04_point_text_roundtrip.
