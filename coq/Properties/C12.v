(* C12 - Shallow search returns the exact minimax value (model-level part).
   The equality "reported score = negamax value, selected move attains it" at depths 1-3 is decided
   on the real search against the extracted oracle Spec.negamax_ab; the search model itself is tied
   to the engine node for node.  Proved here: the oracle is right - fail-soft alpha-beta over any
   window honours the window contract against the plain negamax value, and an answer strictly
   inside the window IS that value, whatever fuel either ran with; the oracle answers whenever the
   plain value exists; the ordering it uses is a sorted permutation; the leaf rules of the
   specification.  And the engine's own search: principal-variation search with zero-window re-search,
   full-window first move, PV/killer ranking, mate-distance window clamp, check extension and fail-hard capture
   quiescence honours the window contract of the plain negamax value at node depths 0-2 (root iterations 1-3,
   where the null move cannot fire), for every ordering oracle that returns permutations, every state and window;
   so an uninterrupted iteration of depth 1-3 reports exactly the negamax value of the position and sends a move
   that attains it.  Not proved: anything about depths where the null move applies (speculative by design). *)
From Coq Require Import Permutation.
From Walleye Require Import Model.Search Spec.Minimax Proofs.SortProofs Proofs.DrawTableProofs Proofs.SearchBasics
     Proofs.AlphaBeta Proofs.TableRestored Proofs.RootProofs Proofs.PVS Proofs.OhCongruence Proofs.PVSRoot Proofs.ClockSim Gen.ZobristTable.
Open Scope Z_scope.

(* the executable oracle against the readable definition: for every position, depth, ply, record and window *)
Theorem C12_oracle_window_contract : forall zt f b d ply a be t r w,
  a < be -> negamax_ab zt f b d ply a be t = Some r -> negamax zt f b d ply t = Some w ->
  (r <= a -> w <= r) /\ (a < r < be -> w = r) /\ (be <= r -> r <= w).
Proof. exact negamax_ab_ok. Qed.

Theorem C12_oracle_is_minimax : forall zt f f' b d ply a be t r w,
  negamax_ab zt f b d ply a be t = Some r -> a < r < be ->
  negamax zt f' b d ply t = Some w -> w = r.
Proof. exact negamax_ab_exact. Qed.

Theorem C12_oracle_answers : forall zt f b d ply t w,
  negamax zt f b d ply t = Some w -> forall a be, exists r, negamax_ab zt f b d ply a be t = Some r.
Proof. exact negamax_ab_some. Qed.

Theorem C12_more_fuel_same_answer : forall zt f f' b d ply a be t v, (f <= f')%nat ->
  negamax_ab zt f b d ply a be t = Some v -> negamax_ab zt f' b d ply a be t = Some v.
Proof. exact negamax_ab_fuel_le. Qed.

Theorem C12_oracle_ordering_is_a_sorted_permutation : forall l,
  Permutation l (stable_sort_desc l) /\ sorted_desc (stable_sort_desc l) = true.
Proof. intros l. split; [apply stable_sort_desc_perm | apply stable_sort_desc_sorted]. Qed.

(* leaf rules of the specified value: repetition is 0; no move is mate (by distance) or stalemate (0) *)
Theorem C12_spec_repetition_is_draw : forall zt f b d ply t,
  2 <= dt_count t (zobrist_key b) -> negamax zt (S f) b d ply t = Some 0.
Proof.
  intros zt f b d ply t H. cbn [negamax]. apply threefold_iff in H. rewrite H. reflexivity.
Qed.

Theorem C12_spec_no_move_is_mate_or_stalemate : forall zt f b d ply t,
  is_threefold_repetition t b = false -> generate_moves zt b AllMoves = [] -> (d <> 0 \/ is_check b (to_move b) = true) ->
  negamax zt (S f) b d ply t = Some (if is_check b (to_move b) then - (MATE_SCORE - ply) else 0).
Proof.
  intros zt f b d ply t R G H. cbn [negamax]. rewrite R, G.
  destruct (is_check b (to_move b)) eqn:C; cbn [negb andb].
  - rewrite andb_false_r. reflexivity.
  - destruct H as [H|H]; [|discriminate]. destruct (Z.eqb_spec d 0); [contradiction|]. reflexivity.
Qed.

(* ---- the engine's search itself *)
(* the plain value of a node does not depend on its ordering field, so ranking moves cannot change it *)
Theorem C12_value_ignores_the_ordering_field : forall zt F a b d ply t,
  same_move a b -> negamax zt F a d ply t = negamax zt F b d ply t.
Proof. exact negamax_same. Qed.

(* alpha_beta_search, not interrupted (expiry index None), at node depth 0..2 (so the null move, which needs depth 3,
   never fires), on any window a < be, from any search state whose repetition record is t as a lookup function,
   with any ordering oracle that returns permutations: the value returned bounds the plain negamax value w the way
   the window says, and is w itself when strictly inside the window.  F is the height within which the plain value
   is defined (check extensions make the tree as deep as the checks go); ply + F <= 100 keeps mate distances apart
   from static evaluations. *)
Theorem C12_search_honours_the_window : forall zt osort,
  (forall i l, Permutation l (osort i l)) ->
  forall f F b d ply a be n s v s' w t,
  0 <= d <= 2 -> 0 <= ply -> ply + Z.of_nat F <= 100 -> a < be ->
  dt_nonneg t -> dt_equiv (table s) t ->
  alpha_beta zt osort None f b d ply a be n s = Ok (v, s') -> negamax zt F b d ply t = Some w ->
  (v <= a -> w <= v) /\ (a < v < be -> w = v) /\ (be <= v -> v <= w).
Proof. intros zt osort P f F. exact (search_exact zt osort P f F). Qed.

(* quiescence alone: the clamp of the plain capture-search value to the window *)
Theorem C12_quiescence_is_the_clamped_value : forall zt osort,
  (forall i l, Permutation l (osort i l)) ->
  forall f F b a be s v s' w, a < be -> quiesce zt osort None f b a be s = Ok (v, s') -> qvalue zt F b = Some w ->
  v = Z.min be (Z.max a w).
Proof. intros zt osort P f F. exact (quiesce_exact zt osort P f F). Qed.

(* one root iteration of depth 1..3, not interrupted, over any list that is a permutation of the generated moves
   with ordering fields changed (what root_depths passes: mark_pv then sort): the newest events are the info line
   with the exact value A = max over the moves of minus the child's plain value, and the send of a move attaining it *)
Theorem C12_iteration_reports_the_exact_value : forall zt osort,
  (forall i l, Permutation l (osort i l)) ->
  forall fuel F first t d b ms0 ms ws A r o r2,
  1 <= d <= 3 -> 1 + Z.of_nat F <= 100 -> dt_nonneg t ->
  generate_moves zt b AllMoves <> [] ->
  Forall2 same_move ms0 (generate_moves zt b AllMoves) -> Permutation ms0 ms ->
  Forall2 (fun m x => negamax zt F m (d - 1) 1 t = Some x) (generate_moves zt b AllMoves) ws -> is_max A (map Z.opp ws) ->
  dt_equiv (table (r_s r)) t ->
  root_moves zt osort None fuel first ms d NEG_INF r = Ok (o, r2) ->
  exists r' mov line evs x,
    o = Some r' /\ r_events r' = Info d A line :: Send mov :: evs /\ r_best r' = Some mov /\
    In mov ms /\ negamax zt F mov (d - 1) 1 t = Some x /\ - x = A.
Proof. exact root_iteration_value. Qed.

(* the whole unlimited search (get_best_move with expiry index None): the LAST score it reports for each of the
   depths 1, 2, 3 is the exact plain value of the position at that depth - the maximum over the generated moves
   of minus the child's negamax value (given within height F <= 99).  Under an allowance the reports are a
   prefix of these (C07_prefix), so a timed search that went on to a deeper iteration has reported this value. *)
Theorem C12_last_score_of_each_depth_is_exact : forall zt osort,
  (forall i l, Permutation l (osort i l)) ->
  forall fuel b t evs s, dt_nonneg t -> get_best_move zt osort None fuel b t = Ok (evs, s) ->
  forall d e A, 1 <= d <= 3 -> RootDraw.newest_info d (rev evs) = Some e ->
  (exists F ws, 1 + Z.of_nat F <= 100 /\
     Forall2 (fun m x => negamax zt F m (d - 1) 1 t = Some x) (generate_moves zt b AllMoves) ws /\ is_max A (map Z.opp ws)) ->
  e = A.
Proof. exact unlimited_scores_exact. Qed.

(* the same under a clock: for every expiry index k, an iteration of depth 1..3 at whose end the clock has not
   expired (quiet: every consultation so far was answered "not yet") reports the exact value and sends a move
   attaining it - an interrupted iteration is cut short, never wrong (C07_no_taint) *)
Theorem C12_timed_iteration_reports_the_exact_value : forall zt osort,
  (forall i l, Permutation l (osort i l)) ->
  forall k fuel F first t d b ms0 ms ws A r o r2,
  1 <= d <= 3 -> 1 + Z.of_nat F <= 100 -> dt_nonneg t ->
  generate_moves zt b AllMoves <> [] ->
  Forall2 same_move ms0 (generate_moves zt b AllMoves) -> Permutation ms0 ms ->
  Forall2 (fun m x => negamax zt F m (d - 1) 1 t = Some x) (generate_moves zt b AllMoves) ws -> is_max A (map Z.opp ws) ->
  dt_equiv (table (r_s r)) t ->
  root_moves zt osort k fuel first ms d NEG_INF r = Ok (o, r2) -> quiet k (r_s r2) ->
  exists r' mov line evs x,
    o = Some r' /\ r_events r' = Info d A line :: Send mov :: evs /\ r_best r' = Some mov /\
    In mov ms /\ negamax zt F mov (d - 1) 1 t = Some x /\ - x = A.
Proof. exact timed_iteration_value. Qed.

Theorem C12_pv_mark_changes_ordering_field_only : forall best l, Forall2 same_move (mark_pv best l) l.
Proof. exact mark_pv_same. Qed.

(* non-vacuity: a position (K+R v K), the engine's table, the stable sort as the ordering oracle (a permutation by
   C12_oracle_ordering_is_a_sorted_permutation): every child has a plain value within height 12, and the model's
   depth-2 iteration reports their maximum, 571 *)
Definition ex_fen : str := [55;107;47;56;47;53;75;50;47;56;47;56;47;56;47;56;47;54;82;49;32;119;32;45;32;45;32;48;32;49]%N.
Definition ex_b := match from_fen zt_concrete ex_fen with Ok s => s | _ => mkBoard [] White None (0,0) (0,0) false false false false 0 None None 0 end.
Definition ex_t : dtable := [(zobrist_key ex_b, 1)].
Example C12_concrete_iteration :
  let zt := zt_concrete in
  let gen := generate_moves zt ex_b AllMoves in
  let ws := [-539; -559; -541; -571; -545; -552; -536; -555; -558; -558; -564; -566; 0; -69; -550; -554; -562; -566; -568; -566; -555] in
  map (fun m => negamax zt 12 m 1 1 ex_t) gen = map Some ws /\
  match root_moves zt (fun _ l => stable_sort_desc l) None 60 ex_b (stable_sort_desc gen) 2 NEG_INF (mkR (new_search ex_t) None []) with
  | Ok (Some r, _) => match r_events r with Info d e _ :: Send _ :: _ => (d, e) = (2, 571) | _ => False end
  | _ => False
  end.
Proof. vm_compute. split; reflexivity. Qed.

Print Assumptions C12_oracle_window_contract.
Print Assumptions C12_value_ignores_the_ordering_field.
Print Assumptions C12_search_honours_the_window.
Print Assumptions C12_quiescence_is_the_clamped_value.
Print Assumptions C12_iteration_reports_the_exact_value.
Print Assumptions C12_last_score_of_each_depth_is_exact.
Print Assumptions C12_timed_iteration_reports_the_exact_value.
Print Assumptions C12_pv_mark_changes_ordering_field_only.
Print Assumptions C12_oracle_is_minimax.
Print Assumptions C12_oracle_answers.
Print Assumptions C12_more_fuel_same_answer.
Print Assumptions C12_oracle_ordering_is_a_sorted_permutation.
Print Assumptions C12_spec_repetition_is_draw.
Print Assumptions C12_spec_no_move_is_mate_or_stalemate.
