(* C12 - Shallow search returns the exact minimax value (model-level part).
   The equality "reported score = negamax value, selected move attains it" at depths 1-3 is decided
   on the real search against the extracted oracle Spec.negamax_ab; the search model itself is tied
   to the engine node for node.  Proved here: the oracle is right - fail-soft alpha-beta over any
   window honours the window contract against the plain negamax value, and an answer strictly
   inside the window IS that value, whatever fuel either ran with; the oracle answers whenever the
   plain value exists; the ordering it uses is a sorted permutation; the leaf rules of the
   specification.  Not proved: that the engine's PVS/null-move/killer search equals negamax. *)
From Coq Require Import Permutation.
From Walleye Require Import Model.Search Spec.Minimax Proofs.SortProofs Proofs.DrawTableProofs Proofs.SearchBasics
     Proofs.AlphaBeta.
Open Scope Z_scope.

(* the executable oracle against the readable definition: for every position, depth, ply, record and window *)
Theorem C12_oracle_window_contract : forall zt f b d ply a be t r w,
  a < be -> negamax_ab zt f b d ply a be t = Some r -> negamax zt f b d ply t = Some w ->
  (r <= a -> w <= r) /\ (a < r < be -> w = r) /\ (be <= r -> r <= w).
Proof. exact negamax_ab_ok. Qed.

Theorem C12_oracle_is_minimax : forall zt f f' b d ply a be t r w,
  negamax_ab zt f b d ply a be t = Some r -> a < r < be ->
  negamax zt f' b d ply t = Some w -> w = r.
Proof. exact negamax_ab_exact. Qed.

Theorem C12_oracle_answers : forall zt f b d ply t w,
  negamax zt f b d ply t = Some w -> forall a be, exists r, negamax_ab zt f b d ply a be t = Some r.
Proof. exact negamax_ab_some. Qed.

Theorem C12_more_fuel_same_answer : forall zt f f' b d ply a be t v, (f <= f')%nat ->
  negamax_ab zt f b d ply a be t = Some v -> negamax_ab zt f' b d ply a be t = Some v.
Proof. exact negamax_ab_fuel_le. Qed.

Theorem C12_oracle_ordering_is_a_sorted_permutation : forall l,
  Permutation l (stable_sort_desc l) /\ sorted_desc (stable_sort_desc l) = true.
Proof. intros l. split; [apply stable_sort_desc_perm | apply stable_sort_desc_sorted]. Qed.

(* leaf rules of the specified value: repetition is 0; no move is mate (by distance) or stalemate (0) *)
Theorem C12_spec_repetition_is_draw : forall zt f b d ply t,
  2 <= dt_count t (zobrist_key b) -> negamax zt (S f) b d ply t = Some 0.
Proof.
  intros zt f b d ply t H. cbn [negamax]. apply threefold_iff in H. rewrite H. reflexivity.
Qed.

Theorem C12_spec_no_move_is_mate_or_stalemate : forall zt f b d ply t,
  is_threefold_repetition t b = false -> generate_moves zt b AllMoves = [] -> (d <> 0 \/ is_check b (to_move b) = true) ->
  negamax zt (S f) b d ply t = Some (if is_check b (to_move b) then - (MATE_SCORE - ply) else 0).
Proof.
  intros zt f b d ply t R G H. cbn [negamax]. rewrite R, G.
  destruct (is_check b (to_move b)) eqn:C; cbn [negb andb].
  - rewrite andb_false_r. reflexivity.
  - destruct H as [H|H]; [|discriminate]. destruct (Z.eqb_spec d 0); [contradiction|]. reflexivity.
Qed.

Print Assumptions C12_oracle_window_contract.
Print Assumptions C12_oracle_is_minimax.
Print Assumptions C12_oracle_answers.
Print Assumptions C12_more_fuel_same_answer.
Print Assumptions C12_oracle_ordering_is_a_sorted_permutation.
Print Assumptions C12_spec_repetition_is_draw.
Print Assumptions C12_spec_no_move_is_mate_or_stalemate.
