(* C12 - Shallow search returns the exact minimax value (model-level part).
   The equality "reported score = negamax value, selected move attains it" at depths 1-3 is decided
   on the real search against the extracted oracle Spec.negamax_ab; the search model itself is tied
   to the engine node for node.  Proved here: the ordering the oracle uses is a sorted permutation
   (so it examines exactly the generated moves), and the leaf rules of the specification. *)
From Coq Require Import Permutation.
From Walleye Require Import Model.Search Spec.Minimax Proofs.SortProofs Proofs.DrawTableProofs Proofs.SearchBasics.
Open Scope Z_scope.

Theorem C12_oracle_ordering_is_a_sorted_permutation : forall l,
  Permutation l (stable_sort_desc l) /\ sorted_desc (stable_sort_desc l) = true.
Proof. intros l. split; [apply stable_sort_desc_perm | apply stable_sort_desc_sorted]. Qed.

(* leaf rules of the specified value: repetition is 0; no move is mate (by distance) or stalemate (0) *)
Theorem C12_spec_repetition_is_draw : forall zt f b d ply t,
  2 <= dt_count t (zobrist_key b) -> negamax zt (S f) b d ply t = Some 0.
Proof.
  intros zt f b d ply t H. cbn [negamax]. apply threefold_iff in H. rewrite H. reflexivity.
Qed.

Theorem C12_spec_no_move_is_mate_or_stalemate : forall zt f b d ply t,
  is_threefold_repetition t b = false -> generate_moves zt b AllMoves = [] -> (d <> 0 \/ is_check b (to_move b) = true) ->
  negamax zt (S f) b d ply t = Some (if is_check b (to_move b) then - (MATE_SCORE - ply) else 0).
Proof.
  intros zt f b d ply t R G H. cbn [negamax]. rewrite R, G.
  destruct (is_check b (to_move b)) eqn:C; cbn [negb andb].
  - rewrite andb_false_r. reflexivity.
  - destruct H as [H|H]; [|discriminate]. destruct (Z.eqb_spec d 0); [contradiction|]. reflexivity.
Qed.

Print Assumptions C12_oracle_ordering_is_a_sorted_permutation.
Print Assumptions C12_spec_repetition_is_draw.
Print Assumptions C12_spec_no_move_is_mate_or_stalemate.
