(* C03 - Every go is answered by exactly one legal, well-formed bestmove (protocol logic).
   Proved on the session model for every schedule (expiry index k) and every ordering
   oracle returning elements of its input.  Legality of the generated moves themselves is C01;
   the runtime part (real threads) is exercised on the binary by the check. *)
From Walleye Require Import Model.Uci Proofs.SessionProofs Proofs.RootProofs.
From Walleye Require Import Spec.Abs Proofs.GenerateAbs Proofs.LegalMoves Proofs.MakeMoveSame Proofs.GoAnswer Proofs.PositionGo Proofs.AlwaysAnswered.
From Coq Require Import Permutation.
Open Scope Z_scope.

(* whatever the search hands back, at whichever point the clock expires, is a generated root move *)
Theorem C03_sends_are_root_moves : forall zt osort k,
  (forall i l x, In x (osort i l) -> In x l) ->
  forall root fuel t ev s, get_best_move zt osort k fuel root t = Ok (ev, s) ->
  forall b0, In (Send b0) ev ->
  exists m, In m (generate_moves zt root AllMoves) /\ same_move b0 m.
Proof. exact get_best_move_sends. Qed.

(* a go that ends normally printed exactly the info lines followed by one bestmove line whose move is
   one of the sends, and the session continues from that board (so go-chains stay inside C01/C02) *)
Theorem C03_answer_is_a_send : forall zt osort st cmds sc gt st' outs,
  parse_go_command cmds = Ok gt -> generate_moves zt (ss_board st) AllMoves <> [] ->
  go_step zt osort st cmds sc = (st', outs) -> ss_phase st' = Running ->
  (exists ev s b t,
      get_best_move zt osort (sc_k sc) (sc_fuel sc) (ss_board st) (ss_table st) = Ok (ev, s) /\
      In b (sends_of ev) /\ best_move_text b = Ok t /\
      ss_board st' = b /\ outs = infos_of ev ++ [s_bestmove ++ t])
  \/ (st' = st /\ exists ev s, get_best_move zt osort (sc_k sc) (sc_fuel sc) (ss_board st) (ss_table st) = Ok (ev, s)
                               /\ sends_of ev = [] /\ outs = infos_of ev).
Proof. exact go_answer_is_a_send. Qed.

Theorem C03_terminal_answer : forall zt osort st cmds sc gt,
  parse_go_command cmds = Ok gt -> generate_moves zt (ss_board st) AllMoves = [] ->
  go_step zt osort st cmds sc = (st, [s_bestmove ++ NULL_MOVE_TEXT]).
Proof. exact go_terminal. Qed.

(* end to end: for a well-formed current position with at least one move, a go that is answered prints the info lines
   followed by "bestmove" and the UCI text (promotion letter exactly when the move promotes, by text_of_move) of a
   LEGAL move of that position, and the session continues from the position the rules give for it, which is again
   well-formed: so every later go of a chain is answered legally as well - for every schedule and ordering oracle
   that returns elements of its input *)
Theorem C03_bestmove_is_a_legal_move : forall zt osort,
  (forall i l x, In x (osort i l) -> In x l) ->
  forall st cmds sc gt st' outs,
  pos_ok1 (ss_board st) ->
  parse_go_command cmds = Ok gt -> generate_moves zt (ss_board st) AllMoves <> [] ->
  go_step zt osort st cmds sc = (st', outs) -> ss_phase st' = Running -> st' <> st ->
  exists mv infos,
    In mv (legal_moves (abs (ss_board st))) /\
    outs = infos ++ [s_bestmove ++ text_of_move mv] /\
    abs (ss_board st') = apply (abs (ss_board st)) mv /\ pos_ok1 (ss_board st').
Proof. exact go_answer_is_legal. Qed.

(* the two lines together, through the command loop of the session model: after a `position` line whose command
   builds board b (C04_position_fen_command / C04_position_startpos_command: b denotes the position P the rules give
   and is well-formed), the `go` line prints: the null move when P has no legal move; otherwise either nothing but
   info lines (the search sent nothing; state unchanged) or info lines and then "bestmove" with the text of a legal
   move of P, the session continuing from the position the rules give for it *)
Theorem C03_position_then_go : forall zt osort,
  (forall i l x, In x (osort i l) -> In x l) ->
  forall st raw1 sc1 cmds1 b t P raw2 sc2 cmds2 gt st' outs,
  ss_phase st = Running ->
  split_on 32 (clean_input raw1) = cmds1 -> nth_error cmds1 0 = Some s_position ->
  play_out_position zt cmds1 = Ok (b, t) -> abs b = P -> pos_ok1 b ->
  split_on 32 (clean_input raw2) = cmds2 -> nth_error cmds2 0 = Some s_go -> parse_go_command cmds2 = Ok gt ->
  run zt osort st [(Line raw1, sc1); (Line raw2, sc2)] = (st', outs) -> ss_phase st' = Running ->
  (legal_moves P = [] /\ outs = [s_bestmove ++ NULL_MOVE_TEXT] /\ ss_board st' = b) \/
  (legal_moves P <> [] /\ st' = mkSess b t Running /\
     exists ev s, get_best_move zt osort (sc_k sc2) (sc_fuel sc2) b t = Ok (ev, s) /\ sends_of ev = [] /\ outs = infos_of ev) \/
  (exists mv infos, In mv (legal_moves P) /\ outs = infos ++ [s_bestmove ++ text_of_move mv] /\
                    abs (ss_board st') = apply P mv /\ pos_ok1 (ss_board st')).
Proof. exact position_then_go. Qed.

(* every go is answered: in a position with at least one move, for every expiry index and ordering oracle that
   keeps non-empty lists non-empty, a go step that leaves the session running has printed its info lines and then
   exactly one bestmove line - the search always hands a move back (an accepted evaluation's move, or, once the
   clock has expired, the first move of the ordering) *)
Theorem C03_go_is_always_answered : forall zt osort,
  (forall i l, l <> [] -> osort i l <> []) ->
  forall st cmds sc gt st' outs,
  NULL_PLY_OFFSET * Z.of_nat (sc_fuel sc) + 1 <= 2 * MATE_SCORE ->
  parse_go_command cmds = Ok gt -> generate_moves zt (ss_board st) AllMoves <> [] ->
  go_step zt osort st cmds sc = (st', outs) -> ss_phase st' = Running ->
  exists ev s b t,
    get_best_move zt osort (sc_k sc) (sc_fuel sc) (ss_board st) (ss_table st) = Ok (ev, s) /\
    In b (sends_of ev) /\ best_move_text b = Ok t /\ ss_board st' = b /\ outs = infos_of ev ++ [s_bestmove ++ t].
Proof. exact go_is_answered. Qed.

(* so the exchange `position ...` / `go ...` has exactly two outcomes: the null move when there is no legal move,
   and otherwise info lines followed by one bestmove line with the text of a legal move *)
Theorem C03_position_then_go_is_answered : forall zt osort,
  (forall i l, Permutation l (osort i l)) ->
  forall st raw1 sc1 cmds1 b t P raw2 sc2 cmds2 gt st' outs,
  NULL_PLY_OFFSET * Z.of_nat (sc_fuel sc2) + 1 <= 2 * MATE_SCORE ->
  ss_phase st = Running ->
  split_on 32 (clean_input raw1) = cmds1 -> nth_error cmds1 0 = Some s_position ->
  play_out_position zt cmds1 = Ok (b, t) -> abs b = P -> pos_ok1 b ->
  split_on 32 (clean_input raw2) = cmds2 -> nth_error cmds2 0 = Some s_go -> parse_go_command cmds2 = Ok gt ->
  run zt osort st [(Line raw1, sc1); (Line raw2, sc2)] = (st', outs) -> ss_phase st' = Running ->
  (legal_moves P = [] /\ outs = [s_bestmove ++ NULL_MOVE_TEXT] /\ ss_board st' = b) \/
  (exists mv infos, In mv (legal_moves P) /\ outs = infos ++ [s_bestmove ++ text_of_move mv] /\
                    abs (ss_board st') = apply P mv /\ pos_ok1 (ss_board st')).
Proof.
  intros zt osort HP st raw1 sc1 cmds1 b t P raw2 sc2 cmds2 gt st' outs HF R E1 N1 PL A PO E2 N2 PG RUN R'.
  assert (HI : forall i l x, In x (osort i l) -> In x l) by (intros i l x Hx; apply (Permutation_in _ (Permutation_sym (HP i l)) Hx)).
  assert (HN : forall i l, l <> [] -> osort i l <> []).
  { intros i l Hl E. apply Hl. pose proof (HP i l) as Q. rewrite E in Q. now apply Permutation_sym, Permutation_nil in Q. }
  destruct (position_then_go zt osort HI st raw1 sc1 cmds1 b t P raw2 sc2 cmds2 gt st' outs R E1 N1 PL A PO E2 N2 PG RUN R')
    as [X|[(NL & _ & ev & s & GB & SE & _)|X]]; [left; exact X| |right; exact X].
  exfalso. assert (NG : generate_moves zt b AllMoves <> []).
  { intros G. apply NL. subst P. now apply (no_moves_iff zt b PO). }
  destruct (search_sends_a_move zt osort HN (sc_k sc2) (sc_fuel sc2) HF b t ev s NG GB) as [b0 Hb].
  apply send_in_sends_of in Hb. rewrite SE in Hb. contradiction.
Qed.

Print Assumptions C03_sends_are_root_moves.
Print Assumptions C03_go_is_always_answered.
Print Assumptions C03_position_then_go_is_answered.
Print Assumptions C03_position_then_go.
Print Assumptions C03_bestmove_is_a_legal_move.
Print Assumptions C03_answer_is_a_send.
Print Assumptions C03_terminal_answer.
