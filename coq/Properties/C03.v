(* C03 - Every go is answered by exactly one legal, well-formed bestmove (protocol logic).
   Proved on the session model for every schedule (expiry index k, pick index) and every ordering
   oracle returning elements of its input.  Legality of the generated moves themselves is C01;
   the runtime part (real threads) is exercised on the binary by the check. *)
From Walleye Require Import Model.Uci Proofs.SessionProofs Proofs.RootProofs.
Open Scope Z_scope.

(* whatever the search hands back, at whichever point the clock expires, is a generated root move *)
Theorem C03_sends_are_root_moves : forall zt osort k,
  (forall i l x, In x (osort i l) -> In x l) ->
  forall root fuel t ev s, get_best_move zt osort k fuel root t = Ok (ev, s) ->
  forall b0, In (Send b0) ev ->
  exists m, In m (generate_moves zt root AllMoves) /\ same_move b0 m.
Proof. exact get_best_move_sends. Qed.

(* a go that ends normally printed exactly the info lines followed by one bestmove line whose move is
   one of the sends, and the session continues from that board (so go-chains stay inside C01/C02) *)
Theorem C03_answer_is_a_send : forall zt osort st cmds sc gt st' outs,
  parse_go_command cmds = Ok gt -> generate_moves zt (ss_board st) AllMoves <> [] ->
  go_step zt osort st cmds sc = (st', outs) -> ss_phase st' = Running ->
  (exists ev s b t,
      get_best_move zt osort (sc_k sc) (sc_fuel sc) (ss_board st) (ss_table st) = Ok (ev, s) /\
      In b (sends_of ev) /\ best_move_text b = Ok t /\
      ss_board st' = b /\ outs = infos_of ev ++ [s_bestmove ++ t])
  \/ (st' = st /\ exists ev s, get_best_move zt osort (sc_k sc) (sc_fuel sc) (ss_board st) (ss_table st) = Ok (ev, s)
                               /\ sends_of ev = [] /\ outs = infos_of ev).
Proof. exact go_answer_is_a_send. Qed.

Theorem C03_terminal_answer : forall zt osort st cmds sc gt,
  parse_go_command cmds = Ok gt -> generate_moves zt (ss_board st) AllMoves = [] ->
  go_step zt osort st cmds sc = (st, [s_bestmove ++ NULL_MOVE_TEXT]).
Proof. exact go_terminal. Qed.

Print Assumptions C03_sends_are_root_moves.
Print Assumptions C03_answer_is_a_send.
Print Assumptions C03_terminal_answer.
