"""Drive the real walleye binary over pipes (threads, wall clock, process exit)."""
import os
import select
import subprocess
import time


class Engine:
    def __init__(self, path):
        self.p = subprocess.Popen([path], stdin=subprocess.PIPE, stdout=subprocess.PIPE, stderr=subprocess.PIPE,
                                  cwd="/tmp", bufsize=0)
        self.buf = b""

    def send(self, line):
        try:
            self.p.stdin.write((line + "\n").encode())
            self.p.stdin.flush()
            return True
        except (BrokenPipeError, OSError):
            return False

    def read_line(self, timeout):
        end = time.time() + timeout
        while b"\n" not in self.buf:
            left = end - time.time()
            if left <= 0:
                return None
            r, _, _ = select.select([self.p.stdout], [], [], left)
            if not r:
                return None
            chunk = os.read(self.p.stdout.fileno(), 65536)
            if not chunk:
                return None
            self.buf += chunk
        line, self.buf = self.buf.split(b"\n", 1)
        return line.decode(errors="replace").rstrip("\r")

    def read_until(self, pred, timeout):
        """lines up to and including the first one satisfying pred; the last element is None on timeout/EOF"""
        out = []
        end = time.time() + timeout
        while True:
            l = self.read_line(max(0.0, end - time.time()))
            out.append(l)
            if l is None or pred(l):
                return out

    def handshake(self):
        self.send("uci")
        return self.read_until(lambda l: l == "uciok", 10)

    def isready(self, timeout=5):
        self.send("isready")
        ls = self.read_until(lambda l: l == "readyok", timeout)
        return ls[-1] == "readyok"

    def close_stdin(self):
        try:
            self.p.stdin.close()
        except Exception:
            pass

    def wait_exit(self, timeout):
        try:
            return self.p.wait(timeout=timeout)
        except subprocess.TimeoutExpired:
            return None

    def stderr_text(self):
        try:
            r, _, _ = select.select([self.p.stderr], [], [], 0)
            if r:
                return os.read(self.p.stderr.fileno(), 65536).decode(errors="replace")
        except Exception:
            pass
        return ""

    def close(self):
        try:
            self.p.kill()
        except Exception:
            pass
        try:
            self.p.wait(timeout=5)
        except Exception:
            pass
        for f in (self.p.stdin, self.p.stdout, self.p.stderr):
            try:
                f.close()
            except Exception:
                pass
        # `setoption name DebugLogLevel value Info` makes the engine write a log into its working directory
        try:
            os.remove("/tmp/walleye_%d.log" % self.p.pid)
        except OSError:
            pass
