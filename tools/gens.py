"""Case generators.  All randomness comes from one random.Random seeded by VERIF_SEED.
Legal games are produced by the extracted *specification* (driver command `playout`),
never by the implementation or by the model of the code."""
import os
import random
import subprocess

VERIF = os.path.dirname(os.path.dirname(os.path.abspath(__file__)))
DRIVER = os.path.join(VERIF, "build", "ocaml", "driver")
ZDUMP = os.path.join(VERIF, "build", "zdump.txt")

START = "rnbqkbnr/pppppppp/8/8/8/8/PPPPPPPP/RNBQKBNR w KQkq - 0 1"


def corpus_fens():
    out = []
    with open(os.path.join(VERIF, "corpus", "fens.txt")) as f:
        for l in f:
            l = l.strip()
            if l and not l.startswith("#"):
                out.append(l)
    return out


def run_driver(lines, timeout=600):
    p = subprocess.run([DRIVER, ZDUMP], input="\n".join(lines) + "\n", capture_output=True, text=True, timeout=timeout)
    if p.returncode != 0:
        raise RuntimeError("driver failed: " + p.stderr[:500])
    return p.stdout.split("\n")


def run_driver_sharded(lines, shards=16, timeout=900):
    """run the driver over `lines`, split into contiguous shards, preserving order"""
    if len(lines) < 64:
        return run_driver(lines, timeout)
    n = (len(lines) + shards - 1) // shards
    chunks = [lines[i:i + n] for i in range(0, len(lines), n)]
    procs = []
    for c in chunks:
        p = subprocess.Popen([DRIVER, ZDUMP], stdin=subprocess.PIPE, stdout=subprocess.PIPE, stderr=subprocess.PIPE, text=True)
        procs.append((p, c))
    import threading
    outs = [None] * len(procs)

    def work(i, p, c):
        o, e = p.communicate("\n".join(c) + "\n", timeout=timeout)
        outs[i] = o

    ths = [threading.Thread(target=work, args=(i, p, c)) for i, (p, c) in enumerate(procs)]
    for t in ths:
        t.start()
    for t in ths:
        t.join()
    res = []
    for o in outs:
        res.extend([l for l in (o or "").split("\n")])
    return res


class Game:
    __slots__ = ("start", "fens", "moves", "tags")

    def __init__(self, start):
        self.start = start
        self.fens = []    # fen after k moves
        self.moves = []   # move list (k-th prefix = moves[:k])
        self.tags = []    # tags of the position after k moves


def playouts(rng, starts, n_games, plies, only_captures=False):
    """random legal games from the given starts; returns list of Game"""
    lines = []
    meta = []
    for i in range(n_games):
        st = starts[i % len(starts)] if i < len(starts) else rng.choice(starts)
        seed = rng.randrange(1, 1 << 30)
        lines.append("playout\t%s\t%d\t%d%s" % (st, seed, plies, "\tC" if only_captures else ""))
        meta.append(st)
    out = run_driver_sharded(lines)
    games = []
    cur = None
    gi = -1
    for l in out:
        if not l.startswith("G "):
            continue
        body = l[2:]
        if body == "illegal-root":
            gi += 1
            cur = None
            continue
        fen, moves, tags = (body.split("\t") + ["", ""])[:3]
        mv = moves.split(" ") if moves else []
        if not mv:
            gi += 1
            cur = Game(meta[gi] if gi < len(meta) else fen)
            games.append(cur)
        cur.fens.append(fen)
        cur.moves = mv
        cur.tags.append(tags)
    return games


def filter_legal(fens):
    """keep the FENs the specification accepts as legal positions; returns (fen, nmoves, state)"""
    out = run_driver_sharded(["legal\t" + f for f in fens])
    res = []
    ls = [l for l in out if l.startswith("L ")]
    for f, l in zip(fens, ls):
        parts = l.split(" ")
        if parts[1] == "1":
            res.append((f, int(parts[2]), parts[3]))
            HYP["checked"] += 1
            if len(parts) > 4 and parts[4] != "H11" and len(HYP["failed"]) < 20:
                HYP["failed"].append((f, parts[4]))
    return res


# legal positions on which the executable tests of the theorems' hypothesis (pos_ok1b, rep_legalb) were evaluated
HYP = {"checked": 0, "failed": []}


# ---------------------------------------------------------------- placements -> FEN
def fen_of_grid(grid, stm="w", rights="-", ep="-", half=0, full=1):
    """grid: dict (file, rank) -> piece letter"""
    rows = []
    for rank in range(7, -1, -1):
        row = ""
        run = 0
        for file in range(8):
            ch = grid.get((file, rank))
            if ch is None:
                run += 1
            else:
                if run:
                    row += str(run)
                    run = 0
                row += ch
        if run:
            row += str(run)
        rows.append(row)
    return "%s %s %s %s %d %d" % ("/".join(rows), stm, rights, ep, half, full)


def sqname(f, r):
    return "abcdefgh"[f] + str(r + 1)


def castling_geometry(rng, limit=None):
    """G2: every castling kind x enemy piece kind (king included) x enemy square, plus blocker variants"""
    cases = []
    kinds = [("K", "w", 0, 7), ("Q", "w", 0, 0), ("k", "b", 7, 7), ("q", "b", 7, 0)]
    for right, col, rank, rook_file in kinds:
        own_k = "K" if col == "w" else "k"
        own_r = "R" if col == "w" else "r"
        for enemy in "qrbnpk":
            e = enemy.upper() if col == "b" else enemy
            for f in range(8):
                for r in range(8):
                    grid = {(4, rank): own_k, (rook_file, rank): own_r}
                    if (f, r) in grid:
                        continue
                    if enemy == "p" and r in (0, 7):
                        continue
                    grid[(f, r)] = e
                    if enemy != "k":
                        # enemy king far away in a corner of the other side
                        far = [(0, 7 - rank), (7, 7 - rank), (3, 7 - rank)]
                        far = [q for q in far if q not in grid]
                        grid[far[0]] = "k" if col == "w" else "K"
                    cases.append(fen_of_grid(grid, stm=col, rights=right))
                    # a blocker between attacker and the rank, sometimes
                    if rng.random() < 0.15:
                        bf, br = rng.randrange(8), rng.randrange(1, 7)
                        if (bf, br) not in grid:
                            g2 = dict(grid)
                            g2[(bf, br)] = rng.choice("NnBb")
                            cases.append(fen_of_grid(g2, stm=col, rights=right))
    # both rooks, both rights
    for col, rank in (("w", 0), ("b", 7)):
        own_k = "K" if col == "w" else "k"
        own_r = "R" if col == "w" else "r"
        for _ in range(120):
            grid = {(4, rank): own_k, (0, rank): own_r, (7, rank): own_r}
            ek = (rng.randrange(8), rng.randrange(8))
            if ek in grid:
                continue
            grid[ek] = "k" if col == "w" else "K"
            for _ in range(rng.randrange(0, 4)):
                q = (rng.randrange(8), rng.randrange(1, 7))
                if q not in grid:
                    pc = rng.choice("qrbn")
                    grid[q] = pc.upper() if col == "b" else pc
            cases.append(fen_of_grid(grid, stm=col, rights="KQ" if col == "w" else "kq"))
    rng.shuffle(cases)
    return cases[:limit] if limit else cases


def castle_with_ep(rng, n):
    """castling available while an en-passant target is pending (the opponent just double-stepped)"""
    cases = []
    for _ in range(n):
        col = rng.choice("wb")
        if col == "w":
            home, own_k, own_r, own_p, en_k, en_p = 0, "K", "R", "P", "k", "p"
            pawn_rank, ep_rank, behind = 4, 5, 6
            rights = rng.choice(["K", "Q", "KQ"])
        else:
            home, own_k, own_r, own_p, en_k, en_p = 7, "k", "r", "p", "K", "P"
            pawn_rank, ep_rank, behind = 3, 2, 1
            rights = rng.choice(["k", "q", "kq"])
        grid = {(4, home): own_k}
        if "k" in rights.lower():
            grid[(7, home)] = own_r
        if "q" in rights.lower():
            grid[(0, home)] = own_r
        f = rng.randrange(8)
        grid[(f, pawn_rank)] = en_p
        if rng.random() < 0.6:
            c = rng.choice([x for x in (f - 1, f + 1) if 0 <= x < 8])
            grid[(c, pawn_rank)] = own_p
        free = [(x, y) for x in range(8) for y in range(8) if (x, y) not in grid and (x, y) not in ((f, ep_rank), (f, behind))]
        ek = rng.choice([q for q in free if abs(q[1] - home) >= 2])
        grid[ek] = en_k
        for _ in range(rng.choice([0, 1, 2])):
            free = [(x, y) for x in range(8) for y in range(1, 7) if (x, y) not in grid and (x, y) not in ((f, ep_rank), (f, behind))]
            grid[rng.choice(free)] = rng.choice("nbrq" if col == "w" else "NBRQ")
        # the opponent may hold castling rights too
        cases.append(fen_of_grid(grid, stm=col, rights=rights, ep=sqname(f, ep_rank)))
    return cases


def corner_capture_chains(rng):
    """chains through the engine's own generator in which a piece captures an unmoved rook on a corner
    (from a corner, from elsewhere, by every piece kind incl. king and promoting pawn), followed by 0-2 further
    moves: castling rights of the captured side must be gone in every later position"""
    out = []
    corners = {"a1": (0, 0), "h1": (7, 0), "a8": (0, 7), "h8": (7, 7)}
    for victim_corner, (vf, vr) in corners.items():
        victim_white = vr == 0
        own_k, own_r = ("K", "R") if victim_white else ("k", "r")
        right = ("Q" if vf == 0 else "K") if victim_white else ("q" if vf == 0 else "k")
        mover_white = not victim_white
        for kind in "brqnkp":
            for _ in range(6):
                grid = {(4, vr): own_k, (vf, vr): own_r}
                # choose an origin square from which `kind` captures on the corner
                cands = []
                for f in range(8):
                    for r in range(8):
                        if (f, r) in grid:
                            continue
                        df, dr = vf - f, vr - r
                        if kind == "b" and abs(df) == abs(dr) and df != 0:
                            cands.append((f, r))
                        elif kind == "r" and (df == 0) != (dr == 0):
                            cands.append((f, r))
                        elif kind == "q" and ((abs(df) == abs(dr) and df != 0) or ((df == 0) != (dr == 0))):
                            cands.append((f, r))
                        elif kind == "n" and sorted((abs(df), abs(dr))) == [1, 2]:
                            cands.append((f, r))
                        elif kind == "k" and max(abs(df), abs(dr)) == 1:
                            cands.append((f, r))
                        elif kind == "p" and abs(df) == 1 and dr == (1 if mover_white else -1):
                            cands.append((f, r))
                if not cands:
                    continue
                # prefer origins on other corners sometimes
                cc = [q for q in cands if q in corners.values()]
                o = rng.choice(cc) if cc and rng.random() < 0.5 else rng.choice(cands)
                # path must be clear for sliders
                ok = True
                if kind in "brq":
                    st = ((vf > o[0]) - (vf < o[0]), (vr > o[1]) - (vr < o[1]))
                    q = (o[0] + st[0], o[1] + st[1])
                    while q != (vf, vr):
                        if q in grid:
                            ok = False
                        q = (q[0] + st[0], q[1] + st[1])
                if not ok:
                    continue
                letter = kind.upper() if mover_white else kind
                grid[o] = letter
                if kind != "k":
                    free = [(f, r) for f in range(8) for r in range(8) if (f, r) not in grid and abs(r - vr) >= 3]
                    grid[rng.choice(free)] = "K" if mover_white else "k"
                fen = fen_of_grid(grid, stm="w" if mover_white else "b", rights=right)
                mv = sqname(*o) + sqname(vf, vr) + ("q" if kind == "p" else "")
                out.append((fen, [mv]))
    return out


def ep_geometry(rng, n):
    """G3: en-passant with pins along rank, file and diagonals, check evasion by ep, both capturers"""
    cases = []
    for _ in range(n):
        col = rng.choice("wb")          # side to move (the capturer)
        f = rng.randrange(8)
        if col == "w":
            pawn_rank, ep_rank, behind = 4, 5, 6
            own_p, en_p, own_k, en_k = "P", "p", "K", "k"
            sliders = "rbq"
        else:
            pawn_rank, ep_rank, behind = 3, 2, 1
            own_p, en_p, own_k, en_k = "p", "P", "k", "K"
            sliders = "RBQ"
        grid = {(f, pawn_rank): en_p}
        caps = [c for c in (f - 1, f + 1) if 0 <= c < 8]
        rng.shuffle(caps)
        for c in caps[:rng.choice([1, 1, 2])]:
            grid[(c, pawn_rank)] = own_p
        style = rng.choice(["rank", "file", "diag", "free", "check"])
        free = [(x, y) for x in range(8) for y in range(8) if (x, y) not in grid and (x, y) not in ((f, ep_rank), (f, behind))]
        if style == "rank":
            ks = [q for q in free if q[1] == pawn_rank]
        elif style == "file":
            ks = [q for q in free if q[0] in caps or q[0] == f]
        elif style == "diag":
            ks = [q for q in free if abs(q[0] - f) == abs(q[1] - pawn_rank) or abs(q[0] - f) == abs(q[1] - ep_rank)]
        else:
            ks = free
        if not ks:
            ks = free
        k = rng.choice(ks)
        grid[k] = own_k
        free = [q for q in free if q != k]
        ek = rng.choice(free)
        grid[ek] = en_k
        free = [q for q in free if q != ek]
        for _ in range(rng.choice([1, 1, 2, 3])):
            if style == "rank":
                cand = [q for q in free if q[1] == pawn_rank]
            elif style == "file":
                cand = [q for q in free if q[0] == k[0]]
            elif style == "diag":
                cand = [q for q in free if abs(q[0] - k[0]) == abs(q[1] - k[1])]
            else:
                cand = free
            if not cand:
                cand = free
            q = rng.choice(cand)
            grid[q] = rng.choice(sliders)
            free = [x for x in free if x != q]
        cases.append(fen_of_grid(grid, stm=col, ep=sqname(f, ep_rank)))
    return cases


def promotion_geometry(rng, n):
    """G4: pawns on the seventh with quiet and capturing promotions, onto corner rooks with rights"""
    cases = []
    for _ in range(n):
        col = rng.choice("wb")
        if col == "w":
            r7, r8, own_p, own_k, en_k, en = 6, 7, "P", "K", "k", "rnbq"
            home = 7
            en_r = "r"
            rights_pool = ["k", "q", "kq", "-"]
        else:
            r7, r8, own_p, own_k, en_k, en = 1, 0, "p", "k", "K", "RNBQ"
            home = 0
            en_r = "R"
            rights_pool = ["K", "Q", "KQ", "-"]
        grid = {}
        rights = rng.choice(rights_pool)
        if rights != "-":
            grid[(4, home)] = en_k
            if rights.lower().find("k") >= 0:
                grid[(7, home)] = en_r
            if rights.lower().find("q") >= 0:
                grid[(0, home)] = en_r
        else:
            grid[(rng.randrange(8), rng.choice([home, home + (-1 if home == 7 else 1)]))] = en_k
        for _ in range(rng.choice([1, 2, 3])):
            f = rng.randrange(8)
            if (f, r7) not in grid:
                grid[(f, r7)] = own_p
        for _ in range(rng.choice([0, 1, 2, 3])):
            q = (rng.randrange(8), r8)
            if q not in grid:
                grid[q] = rng.choice(en)
        free = [(x, y) for x in range(8) for y in range(8) if (x, y) not in grid and y not in (r7, r8)]
        grid[rng.choice(free)] = own_k
        for _ in range(rng.choice([0, 1, 2])):
            free = [(x, y) for x in range(8) for y in range(1, 7) if (x, y) not in grid]
            grid[rng.choice(free)] = rng.choice(en)
        cases.append(fen_of_grid(grid, stm=col, rights=rights))
    return cases


def check_geometry(rng, n=None, with_blocker=False):
    """G5: king square x attacker x attacker square (x one blocker); any placement with one king each"""
    cases = []
    allsq = [(f, r) for f in range(8) for r in range(8)]
    if n is None:
        for k in allsq:
            for a in allsq:
                if a == k:
                    continue
                for kind in "qrbnpk":
                    cases.append((k, a, kind, None))
    else:
        for _ in range(n):
            k = rng.choice(allsq)
            a = rng.choice([q for q in allsq if q != k])
            kind = rng.choice("qrbnpk")
            b = None
            if with_blocker or rng.random() < 0.5:
                # a blocker on the segment between them when aligned, else anywhere
                seg = []
                df, dr = a[0] - k[0], a[1] - k[1]
                if df == 0 or dr == 0 or abs(df) == abs(dr):
                    st = (0 if df == 0 else df // abs(df), 0 if dr == 0 else dr // abs(dr))
                    q = (k[0] + st[0], k[1] + st[1])
                    while q != a:
                        seg.append(q)
                        q = (q[0] + st[0], q[1] + st[1])
                cand = seg if seg and rng.random() < 0.8 else [q for q in allsq if q not in (k, a)]
                b = (rng.choice(cand), rng.choice("PNBRQpnbrq"))
            cases.append((k, a, kind, b))
    fens = []
    for k, a, kind, b in cases:
        col = rng.choice("wb")
        grid = {k: "K" if col == "w" else "k"}
        if kind == "k":
            grid[a] = "k" if col == "w" else "K"
        else:
            grid[a] = kind if col == "w" else kind.upper()
            # the other king somewhere else
            free = [q for q in allsq if q not in grid and (b is None or q != b[0])]
            grid[rng.choice(free)] = "k" if col == "w" else "K"
        if b is not None and b[0] not in grid:
            grid[b[0]] = b[1]
        fens.append(fen_of_grid(grid, stm=rng.choice("wb")))
    return fens


def random_placements(rng, n, max_extra=20, any_kings=False):
    """G7: arbitrary placements, pawns anywhere (first/last rank included), up to nine queens a side;
    one king each unless any_kings (C14 quantifies over all placements, C06 over those with one king per side)"""
    fens = []
    allsq = [(f, r) for f in range(8) for r in range(8)]
    for _ in range(n):
        sq = allsq[:]
        rng.shuffle(sq)
        grid = {sq[0]: "K", sq[1]: "k"}
        # any number of kings (the property quantifies over all placements): sometimes none, two or three of a colour
        kq = rng.random() if any_kings else 1.0
        if kq < 0.06:
            del grid[sq[0]]
        elif kq < 0.12:
            del grid[sq[1]]
        elif kq < 0.2:
            grid[sq[62]] = rng.choice("Kk")
            if rng.random() < 0.4:
                grid[sq[63]] = rng.choice("Kk")
        style = rng.random()
        if style < 0.15:
            pool = "Qq"
            k = rng.randrange(2, 19)
        elif style < 0.3:
            pool = "PpNnBbRrQq"
            k = rng.randrange(40, 62)
        else:
            pool = "PPPpppNnBbRrQq"
            k = rng.randrange(0, max_extra)
        nq = {"Q": 0, "q": 0}
        for q in sq[2:2 + k]:
            pc = rng.choice(pool)
            if pc in nq:
                if nq[pc] >= 9:
                    continue
                nq[pc] += 1
            grid[q] = pc
        fens.append(fen_of_grid(grid, stm=rng.choice("wb")))
    return fens


def mirror_fen(fen):
    """the colour-mirrored twin: ranks flipped, colours and side to move swapped"""
    parts = fen.split(" ")
    rows = parts[0].split("/")
    rows = [r.swapcase() for r in rows[::-1]]
    stm = "b" if parts[1] == "w" else "w"
    rights = "".join(sorted(parts[2].swapcase(), key=lambda c: "KQkq-".index(c))) if parts[2] != "-" else "-"
    ep = parts[3]
    if ep != "-":
        ep = ep[0] + str(9 - int(ep[1]))
    return " ".join(["/".join(rows), stm, rights, ep] + parts[4:])


def hexs(s):
    return ",".join("%x" % ord(c) for c in s)


COUNTERS = [0, 1, 7, 99, 255, 256, 300, 5898, 65535, 2 ** 32 - 1]


def fen_strings(rng, legal_fens, n_valid, n_bad):
    """G8: valid FENs with counters over interesting values; a separate malformed stream"""
    valid = []
    for _ in range(n_valid):
        f = rng.choice(legal_fens).split(" ")
        f[4] = str(rng.choice(COUNTERS))
        f[5] = str(rng.choice(COUNTERS[1:]))
        s = " ".join(f)
        if rng.random() < 0.1:
            s += rng.choice(["\n", "\r\n"])
        valid.append(s)
    bad = []
    # characters from the Unicode classes a loosened character test would let through
    uni = ["٨", "４", "²", "½", "Ⅷ", "๓", "८", "𝟖", "К", "ｋ", "Ｋ", "ℚ", "\u00a0", "\u2003", "\u3000", "\u0085", "\ufeff"]
    junk = ["é", "ü", "€", " ", "𝔸", "x", "9", "0", "/", " ", "-", "k", "K", "e", "ex", "e9", "é", "i3", "a0", "+", "+1", "-1", "256", "4294967296", "w", "b", "", "\t", "\n"] + uni
    for _ in range(n_bad):
        f = rng.choice(legal_fens).split(" ")
        style = rng.randrange(10)
        if style == 9:
            # an empty-square run that overflows the row late: some squares consumed, then a digit too large
            rows = f[0].split("/")
            i = rng.randrange(8)
            used = rng.randrange(1, 8)
            prefix = ""
            left = used
            while left > 0:
                if rng.random() < 0.5:
                    prefix += rng.choice("rnbqkpRNBQKP"); left -= 1
                else:
                    d = rng.randrange(1, left + 1); prefix += str(d); left -= d
            rows[i] = prefix + str(rng.randrange(9 - used, 9)) + rng.choice(["", "", "p", "1"])
            f[0] = "/".join(rows)
            s = " ".join(f)
        elif style == 0:
            i = rng.randrange(6)
            f[i] = rng.choice(junk)
            s = " ".join(f)
        elif style == 1:
            s = " ".join(f)
            k = rng.randrange(len(s))
            s = s[:k] + rng.choice(junk) + s[k + 1:]
        elif style == 2:
            s = " ".join(f)
            s = s[:rng.randrange(len(s))]
        elif style == 3:
            rows = f[0].split("/")
            i = rng.randrange(8)
            rows[i] = rows[i] + rng.choice(["1", "p", "8", "9", "pp"])
            f[0] = "/".join(rows)
            s = " ".join(f)
        elif style == 4:
            f[3] = rng.choice(["ex", "é", "e", "e33", "ü", "éé", "a9", "a0", "h8", "e3", "e6", "i6", "€", "1e", "--", "ee"])
            s = " ".join(f)
        elif style == 5:
            a, b = rng.sample(range(6), 2)
            f[a], f[b] = f[b], f[a]
            s = " ".join(f)
        elif style == 6:
            f[rng.choice([4, 5])] = rng.choice(["", "x", "-1", "+3", "1.5", "４", "99999999999", "4294967296", "4294967295", "00012", "256", "1e3"])
            s = " ".join(f)
        elif style == 7:
            rows = f[0].split("/")
            rng.shuffle(rows)
            rows = rows[:rng.choice([6, 7, 8, 9])] + (["8"] if rng.random() < 0.3 else [])
            f[0] = "/".join(rows)
            s = " ".join(f)
        else:
            s = "".join(rng.choice("rnbqkpRNBQKP12345678/ wb-KQkqa3é ") for _ in range(rng.randrange(0, 70)))
        bad.append(s)
        # a well-formed FEN with exactly one character replaced by a Unicode look-alike of its class
        f = rng.choice(legal_fens).split(" ")
        fi = rng.choice([0, 0, 0, 1, 2, 3, 4, 5])
        if f[fi]:
            k = rng.randrange(len(f[fi]))
            f[fi] = f[fi][:k] + rng.choice(uni) + f[fi][k + 1:]
        bad.append(" ".join(f))
    return valid, bad


def promotion_then_castle():
    """a pawn promotes (every file, every piece, by push) while the other side still has castling rights:
    the reply list (through the engine's own generator) must contain castling without a promotion letter,
    whenever the rules allow it.  Returns (fen, [promotion move text])."""
    out = []
    files = "abcdefgh"
    for mover_white in (True, False):
        for wing in ("K", "Q", "KQ"):
            for f in range(8):
                # the castling side: king on e, rooks per wing; the promoting pawn on the seventh (second) rank
                back = {4: "k" if mover_white else "K"}
                if "K" in wing:
                    back[7] = "r" if mover_white else "R"
                if "Q" in wing:
                    back[0] = "r" if mover_white else "R"
                if f in back:
                    continue
                def row(d):
                    s_, e = "", 0
                    for i in range(8):
                        if i in d:
                            if e:
                                s_ += str(e); e = 0
                            s_ += d[i]
                        else:
                            e += 1
                    return s_ + (str(e) if e else "")
                pawn_row = row({f: "P" if mover_white else "p"})
                own_king_row = row({4: "K" if mover_white else "k"}) if f != 4 else row({3: "K" if mover_white else "k"})
                rights = "".join(c for c in ("kq" if mover_white else "KQ") if c.upper() in wing)
                if mover_white:
                    fen = "%s/%s/8/8/8/8/8/%s w %s - 0 1" % (row(back), pawn_row, own_king_row, rights)
                    base = "%s7%s8" % (files[f], files[f])
                else:
                    fen = "%s/8/8/8/8/8/%s/%s b %s - 0 1" % (own_king_row, pawn_row, row(back), rights)
                    base = "%s2%s1" % (files[f], files[f])
                for k in "qrbn":
                    out.append((fen, [base + k]))
    return out


def king_guarded_piece_positions():
    """a knight next to the mover's king, guarded only by the enemy king standing on any of its other sides:
    capturing it is illegal whichever side the guard stands on (both colours)"""
    out = []
    tf, tr = 3, 3
    nb = [(df, dr) for df in (-1, 0, 1) for dr in (-1, 0, 1) if (df, dr) != (0, 0)]
    for kf, kr in nb:
        for ef, er in nb:
            K = (tf + kf, tr + kr)
            E = (tf + ef, tr + er)
            if max(abs(K[0] - E[0]), abs(K[1] - E[1])) < 2:
                continue
            for stm in "wb":
                grid = {K: "K" if stm == "w" else "k", E: "k" if stm == "w" else "K", (tf, tr): "n" if stm == "w" else "N"}
                out.append(fen_of_grid(grid, stm=stm))
    return out


def extra_rook_positions():
    """a side that still holds a castling right, its home rook unmoved, and a SECOND rook of that side off its home
    square on the same a/h file (also one on the same back rank): moving the second rook must keep the right"""
    out = []
    for stm in "wb":
        home = 0 if stm == "w" else 7
        K, R = ("K", "R") if stm == "w" else ("k", "r")
        ok, orr = ("k", "r") if stm == "w" else ("K", "R")
        ohome = 7 - home
        for side, cf in (("q", 0), ("k", 7)):
            for er in (2, 3, 4, 5):
                grid = {(4, home): K, (cf, home): R, (cf, er if stm == "w" else 7 - er): R, (4, ohome): ok, (0, ohome): orr, (7, ohome): orr}
                right = side.upper() if stm == "w" else side
                others = "kq" if stm == "w" else "KQ"
                rights = "".join(sorted(right + others, key="KQkq".index))
                out.append(fen_of_grid(grid, stm=stm, rights=rights))
            # second rook on the back rank next to the king's path but not between king and rook
            grid = {(4, home): K, (cf, home): R, (7 - cf, home): R, (3 if cf == 7 else 5, 3): R, (4, ohome): ok}
            out.append(fen_of_grid(grid, stm=stm, rights=(side.upper() if stm == "w" else side)))
    return out


def ep_via_moves(fens):
    """for positions with an en-passant target: the position one ply earlier and the double step as a move, so that
    the target is recorded by the text-move applier instead of the FEN loader"""
    out = []
    for f in fens:
        parts = f.split(" ")
        if len(parts) < 4 or parts[3] == "-":
            continue
        ef = "abcdefgh".index(parts[3][0])
        er = int(parts[3][1]) - 1
        grid = {}
        for ri, row in enumerate(parts[0].split("/")):
            fi = 0
            for ch in row:
                if ch.isdigit():
                    fi += int(ch)
                else:
                    grid[(fi, 7 - ri)] = ch
                    fi += 1
        if parts[1] == "w":          # black has just played ef7-ef5
            frm, to, pawn, mover = (ef, 6), (ef, 4), "p", "b"
        else:
            frm, to, pawn, mover = (ef, 1), (ef, 3), "P", "w"
        if grid.get(to) != pawn or frm in grid or (ef, er) in grid:
            continue
        del grid[to]
        grid[frm] = pawn
        prev = fen_of_grid(grid, stm=mover, rights=parts[2])
        out.append("position fen %s moves %s%s" % (prev, sqname(*frm), sqname(*to)))
    legal = set(f for f, _, _ in filter_legal([c.split(" moves ")[0][len("position fen "):] for c in out]))
    return [c for c in out if c.split(" moves ")[0][len("position fen "):] in legal]
