"""Per-property check definitions: theorem files, generators, comparisons, black-box parts."""
import json
import os
import re
import subprocess
import sys
import time

import gens
import vcheck as V

PROPS = {}

# the theorems each property file must state (committed list; a theorem that disappears is a broken proof)
THEOREMS = {}
for _l in open(os.path.join(V.COQ, "Properties", "THEOREMS.txt")):
    if _l.strip():
        _p, _t = _l.split()
        THEOREMS.setdefault(_p, []).append(_t)

# the standard library's own axioms that Flocq / Reals rely on (C09 only)
FLOCQ_AXIOMS = ("ClassicalDedekindReals.sig_forall_dec", "ClassicalDedekindReals.sig_not_dec",
                "FunctionalExtensionality.functional_extensionality_dep", "Classical_Prop.classic")


def prop(pid, file, theorems, axioms=(), binary=False):
    def deco(fn):
        PROPS[pid] = {"file": file, "theorems": theorems, "axioms": axioms, "binary": binary, "run": fn}
        return fn
    return deco


def hist_add(o, key, n=1):
    o.hist[key] = o.hist.get(key, 0) + n


def report(o, batch, results, mm, sm, nontrivial=None, spec_is_property=True):
    """account for one correspondence batch"""
    o.evaluations += len(results)
    o.traces += len(results)
    hist_add(o, "batch:" + batch, len(results))
    o.oblige("correspondence model = implementation on batch '%s' (%d cases)" % (batch, len(results)), not mm)
    o.oblige("specification oracle = implementation on batch '%s'" % batch, not sm)
    if nontrivial is not None:
        seen = set()
        for r in results:
            if nontrivial(r):
                seen.add(r["case"])
        o.distinct += len(seen)
    for r in results[:2]:
        if len(o.samples) < 12:
            o.samples.append(r["case"][:300])
    for r in sm[:3]:
        o.violation("input" if spec_is_property else "corr",
                    "batch %s: implementation differs from the specification on case %r: %s" % (
                        batch, r["case"][:200], V.first_diff(r.get("P"), r.get("S"))),
                    {"case": r["case"], "impl": r.get("P"), "spec": r.get("S")})
    if not sm:
        for r in mm[:3]:
            o.violation("corr",
                        "batch %s: correspondence model/implementation broken on case %r: %s" % (
                            batch, r["case"][:200], V.first_diff(r.get("I"), r.get("M"))),
                        {"correspondence": batch, "case": r["case"], "impl": r.get("I"), "model": r.get("M")})


# ---------------------------------------------------------------- shared position pools
_pool_cache = {}


def game_pool(rng, n_games, plies, tag="g"):
    key = (tag, n_games, plies)
    if key not in _pool_cache:
        starts = gens.corpus_fens()
        _pool_cache[key] = gens.playouts(rng, starts, n_games, plies)
    return _pool_cache[key]


def positions_of_games(games):
    seen = set()
    out = []
    for g in games:
        for f in g.fens:
            if f not in seen:
                seen.add(f)
                out.append(f)
    return out


def tags_hist(o, games):
    for g in games:
        for t in g.tags:
            for x in t.split(","):
                if x:
                    hist_add(o, "tag:" + x)
        hist_add(o, "game_len:%d" % (10 * (len(g.moves) // 10)))


def moves_nontrivial(r):
    """a gen case is non-trivial when its legal move list has castling, promotion, en passant or the mover is in check"""
    s = r.get("S") or ""
    m = re.search(r"chk=(\d)(\d)", s)
    incheck = m and ("1" in m.group(0))
    mv = s.split("moves=")[-1] if "moves=" in s else ""
    promo = re.search(r"(?:^|,)[a-h][1-8][a-h][1-8][qrbn]=", mv) is not None
    castle = re.search(r"(?:^|,)e([18])[cg]\1=", mv) is not None
    ep = re.search(r"root=[^ ]*/(\d,\d)#", s) is not None
    return bool(incheck or promo or castle or ep)


# ---------------------------------------------------------------- projections of the canonical lines
# Each property compares only what it states, so that a defect in another component (e.g. the hash,
# which is C05's business) is not reported against it.
KEY_RE = re.compile(r"#[0-9a-f]{16}")
REC_TAIL_RE = re.compile(r"\|(-?\d+)\|([^|;@ ]*)\|([^|;@ ]*)\|[0-9a-f]{16}")


def no_key(line):
    """drop position keys from a projection line"""
    return None if line is None else KEY_RE.sub("", line)


def rec_no_key_no_hint(line):
    """drop the zobrist key and the ordering hint from full records"""
    return None if line is None else REC_TAIL_RE.sub(lambda m: "|_|%s|%s" % (m.group(2), m.group(3)), line)


def moves_only(line):
    """the move set (uci texts, sorted, with multiplicity) and the check flags of a gen projection line"""
    if line is None or "moves=" not in line:
        return line
    head, mv = line.split("moves=", 1)
    names = sorted(x.split("=")[0] for x in mv.split(",") if re.match(r"^[a-h][1-8][a-h][1-8][qrbn]?=", x))
    m = re.search(r"chk=\S+", head)
    return "gen %s moves=%s" % (m.group(0) if m else "", ",".join(names))


def model_moves_only(line):
    """the move set of a full gen line (harness I / driver M): texts after '@', sorted"""
    if line is None or "succ=" not in line:
        return line
    head, succ = line.split("succ=", 1)
    names = sorted(x.rsplit("@", 1)[-1] for x in succ.split(";") if x)
    m = re.search(r"chk=\S+", head)
    return "gen %s moves=%s" % (m.group(0) if m else "", ",".join(names))


# ---------------------------------------------------------------- C14
@prop("C14", "C14.v", THEOREMS["C14"])
def run_c14(o, tier, rng, prep):
    n = 400 if tier == "quick" else 20000
    fens = gens.random_placements(rng, n, any_kings=True)
    # single-piece basis, exhaustive: 12 pieces x 64 squares
    basis = []
    for pc in "PNBRQKpnbrqk":
        for f in range(8):
            for r in range(8):
                basis.append(gens.fen_of_grid({(f, r): pc}, stm="w"))
    # the largest material imbalance legal play can produce (nine queens and the original pieces against a bare
    # king): this is where the evaluation comes closest to the range reserved for mates
    heavy = ["7k/8/8/8/8/QQ1QQ3/Q1QQQQ2/KRRBBNN1 w - - 0 1", "7k/8/8/8/8/QQ1QQ3/Q1QQQQ2/KRRBBNN1 b - - 0 1",
             "krrbbnn1/q1qqqq2/qq1qq3/8/8/8/8/7K w - - 0 1", "3k4/8/8/8/3QQ3/2QQQQ2/2QQQ3/R2K3R w - - 0 1"]
    fens = basis + heavy + fens
    cases = []
    for f in fens:
        parts = f.split(" ")
        flipped = " ".join([parts[0], "b" if parts[1] == "w" else "w"] + parts[2:])
        cases += ["eval\t" + f, "eval\t" + gens.mirror_fen(f), "eval\t" + flipped]
    res = V.run_cases(cases)
    mm, _ = V.compare(res, use_spec=False)
    report(o, "eval on single-piece basis (exhaustive) and random placements with mirrored and side-flipped twins", res, mm, [],
           nontrivial=lambda r: r.get("I") is not None and not r.get("I").startswith("eval 0 "))
    o.rule = "placements: 768 single-piece boards (exhaustive) plus random placements (up to nine queens a side, pawns on any rank), each with its colour-mirrored twin and its side-flipped twin; distinct = distinct FENs with a non-zero evaluation"
    bound = None
    try:
        txt = open(os.path.join(V.COQ, "Gen", "Consts.v")).read()
        mate = int(re.search(r"Definition MATE_SCORE : Z := (\d+)", txt).group(1))
        bound = mate - 100
    except Exception:
        pass
    for i in range(0, len(res), 3):
        try:
            a, m, fl = [int(res[i + k]["I"].split(" ")[1]) for k in range(3)]
        except Exception:
            o.violation("input", "evaluation failed on " + res[i]["case"], {"case": res[i]["case"], "impl": [res[i + k].get("I") for k in range(3)]})
            continue
        if a != m:
            o.violation("input", "mirror symmetry fails: eval=%d mirrored=%d for %s" % (a, m, res[i]["case"]), {"case": res[i]["case"], "mirror": res[i + 1]["case"], "values": [a, m]})
        if a != -fl:
            o.violation("input", "side relativity fails: eval=%d other side=%d for %s" % (a, fl, res[i]["case"]), {"case": res[i]["case"], "values": [a, fl]})
        # the same on one board object: handing the move to the other side (as the null move does) negates the
        # number, and asking again gives the same number (the evaluation depends on nothing else)
        for k in range(3):
            w = res[i + k]["I"].split(" ")
            if len(w) >= 8 and (int(w[3]) != -int(w[1]) or int(w[5]) != int(w[1]) or int(w[7]) != int(w[1])):
                o.violation("input", "evaluation depends on more than placement and side: eval=%s, side handed over=%s, asked again=%s, other record fields disturbed=%s for %s" % (w[1], w[3], w[5], w[7], res[i + k]["case"]),
                            {"case": res[i + k]["case"], "values": w})
        if bound is not None and abs(a) >= bound:
            o.violation("input", "evaluation %d reaches the mate range for %s" % (a, res[i]["case"]), {"case": res[i]["case"], "value": a})
    o.oblige("metamorphic relations (mirror, side, bound) on the implementation", not o.violations)
    o.assumptions.append("i32 arithmetic does not wrap: |eval| <= 64*max_cell is part of C14_bounded")


# ---------------------------------------------------------------- C01 / C02 / C13 (generator against the rules)
def gen_cases_from_positions(fens, mode="A"):
    return ["gen\t%s\t%s\t" % (mode, f) for f in fens]


def geometry_positions(rng, tier):
    cast = gens.castling_geometry(rng, limit=(700 if tier == "quick" else None))
    ep = gens.ep_geometry(rng, 500 if tier == "quick" else 6000)
    pr = gens.promotion_geometry(rng, 300 if tier == "quick" else 4000)
    cep = gens.castle_with_ep(rng, 300 if tier == "quick" else 4000)
    legal = gens.filter_legal(cast + ep + pr + cep + gens.extra_rook_positions())
    return [f for f, _, _ in legal]


def hypothesis_obligation(o):
    """the theorems of C01/C02/C13 assume pos_ok1; its executable tests must hold on every legal position explored"""
    for f, h in gens.HYP["failed"][:3]:
        o.violation("proof", "the hypothesis of the move-generation theorems (pos_ok1b/rep_legalb = %s) fails on the legal position %s" % (h, f),
                    {"theorem": "C01_generated_moves_exactly_legal (hypothesis pos_ok1)", "fen": f, "tests": h})
    o.oblige("hypothesis of the theorems (extracted pos_ok1b and rep_legalb) holds on all %d legal positions loaded by from_fen in this run" % gens.HYP["checked"],
             not gens.HYP["failed"])


@prop("C01", "C01.v", THEOREMS["C01"])
def run_c01(o, tier, rng, prep):
    corpus = [l.strip() for l in open(os.path.join(V.VERIF, "corpus", "c01_regress.txt")) if l.strip() and not l.startswith("#")]
    geo = geometry_positions(rng, tier)
    games = game_pool(rng, 40 if tier == "quick" else 1500, 60)
    tags_hist(o, games)
    pos = positions_of_games(games)
    if tier == "quick":
        rng.shuffle(pos)
        pos = pos[:1200]
    # positions reached through the engine's own generator: chains from game prefixes and corner captures
    chain_cases = []
    for g in games:
        n = len(g.moves)
        for k in range(1, n, 5 if tier == "quick" else 1):
            j = max(0, k - rng.choice([1, 2, 3]))
            chain_cases.append("gen\tA\t%s\t%s" % (g.fens[j], " ".join(g.moves[j:k])))
    cc = gens.corner_capture_chains(rng)
    cc_legal = set(f for f, _, _ in gens.filter_legal([f for f, _ in cc]))
    for fen, chain in cc:
        if fen in cc_legal:
            chain_cases.append("gen\tA\t%s\t%s" % (fen, " ".join(chain)))
    # a promotion answered by castling: the castling successor must not inherit the promotion piece
    pc_ = gens.promotion_then_castle()
    pc_legal = set(f for f, _, _ in gens.filter_legal(sorted(set(f for f, _ in pc_))))
    for fen, chain in pc_:
        if fen in pc_legal:
            chain_cases.append("gen\tA\t%s\t%s" % (fen, " ".join(chain)))
    # after the capture, every reply of the other side and then the position after it
    follow = []
    pre = V.run_sharded([V.DRIVER, V.ZDUMP], [c for c in chain_cases if c.split("\t")[2] in cc_legal])
    for c, l in zip([c for c in chain_cases if c.split("\t")[2] in cc_legal], [x for x in pre if x.startswith("S ")]):
        mv = [x.split("=")[0] for x in l.split("moves=")[-1].split(",") if re.match(r"^[a-h][1-8][a-h][1-8][qrbn]?=", x)]
        rng.shuffle(mv)
        for m in mv[:4]:
            follow.append(c + " " + m)
    chain_cases += follow
    res = V.run_cases(chain_cases)
    mm, sm = V.compare(res, model_filter=model_moves_only, spec_filter=moves_only)
    report(o, "positions reached through chains of generated successors (game prefixes, corner captures and the replies)", res, mm, sm, nontrivial=moves_nontrivial)
    # and through the `position ... moves ...` command: what the search chooses from must be the legal moves of the
    # position the command describes (double steps, castling and captures applied by the text-move applier)
    pgames = [g for g in games if g.moves][: (60 if tier == "quick" else 1500)]
    rcases = []
    for g in pgames:
        for kk in range(1, len(g.moves) + 1, 1 if tier != "quick" else 2):
            rcases.append("roots\t" + pos_cmd(g.start, g.moves[:kk]))
    if tier == "quick":
        rng.shuffle(rcases)
        rcases = rcases[:500]
    rcases += ["roots\t" + c for c in gens.ep_via_moves(gens.ep_geometry(rng, 400 if tier == "quick" else 4000))]
    rres = V.run_cases(rcases)
    rmm, rsm = V.compare(rres)
    report(o, "root moves after position commands (game prefixes through the text-move applier)", rres, rmm, rsm, nontrivial=lambda r: True)
    for name, fens in (("regression corpus", corpus), ("castling/en-passant/promotion geometry", geo), ("positions of random legal games", pos)):
        res = V.run_cases(gen_cases_from_positions(fens))
        # C01 is about the move set: descriptors as sorted multisets (positions and keys are C02 / C05)
        mm, sm = V.compare(res, model_filter=model_moves_only, spec_filter=moves_only)
        report(o, name, res, mm, sm, nontrivial=moves_nontrivial)
    hypothesis_obligation(o)
    o.rule = "legal positions (accepted by the specification's legal_position): regression corpus, enumerated castling geometry (4 castling kinds x 6 enemy kinds incl. king x every square, blockers), en-passant pins/evasions, promotions incl. corner captures, and every prefix of random legal games generated by the specification; non-trivial = castling, promotion or en passant available, or the mover in check"


@prop("C02", "C02.v", THEOREMS["C02"])
def run_c02(o, tier, rng, prep):
    games = game_pool(rng, 40 if tier == "quick" else 1500, 60)
    geo = geometry_positions(rng, tier)
    cases = []
    # chains: two or three plies walked through *generated* successors, then all successors dumped
    for g in games:
        n = len(g.moves)
        for k in range(0, n, 3 if tier == "quick" else 1):
            j = max(0, k - rng.choice([1, 2, 3]))
            cases.append("gen\tA\t%s\t%s" % (g.fens[j], " ".join(g.moves[j:k])))
    if tier == "quick":
        rng.shuffle(cases)
        cases = cases[:1000]
    cases += gen_cases_from_positions(geo)
    # the same successors as the capture-only generator builds them (quiescence): every field of the record, not only the move
    cases += gen_cases_from_positions(geo, mode="C")
    cc = gens.corner_capture_chains(rng)
    cc_legal = set(f for f, _, _ in gens.filter_legal([f for f, _ in cc]))
    cases += ["gen\tA\t%s\t%s" % (f, " ".join(ch)) for f, ch in cc if f in cc_legal]
    cases += ["gen\tA\t%s\t" % f for f, ch in cc if f in cc_legal]
    corpus = [l.rstrip("\n") for l in open(os.path.join(V.VERIF, "corpus", "c02_regress.txt")) if l.strip() and not l.startswith("#")]
    cases = corpus + cases
    res = V.run_cases(cases)
    mm, sm = V.compare(res, model_filter=rec_no_key_no_hint, spec_filter=no_key)
    report(o, "successor records along chains of generated successors", res, mm, sm, nontrivial=moves_nontrivial)
    hypothesis_obligation(o)
    o.rule = "chains of 0-3 generated successors (so inherited fields are exercised) from prefixes of specification-generated games and geometry families; every successor's full record, descriptor and printed bestmove text compared; non-trivial as for C01"


@prop("C13", "C13.v", THEOREMS["C13"])
def run_c13(o, tier, rng, prep):
    games = game_pool(rng, 40 if tier == "quick" else 1500, 60)
    pos = positions_of_games(games)
    geo = geometry_positions(rng, tier)
    if tier == "quick":
        rng.shuffle(pos)
        pos = pos[:600]
    # capture chains as quiescence follows them: playouts restricted to captures by the specification
    cg = gens.playouts(rng, pos + geo, 300 if tier == "quick" else 8000, 6, only_captures=True)
    cases = []
    for g in cg:
        for k in range(len(g.moves) + 1):
            cases.append("gen\tC\t%s\t%s" % (g.fens[0], " ".join(g.moves[:k])))
    corpus = [l.rstrip("\n") for l in open(os.path.join(V.VERIF, "corpus", "c13_regress.txt")) if l.strip() and not l.startswith("#")]
    # captures of an unmoved rook on its corner, by every piece kind incl. the king and from another corner:
    # "each successor is the position that move really produces" includes the castling rights it leaves
    cc = gens.corner_capture_chains(rng)
    cc_legal = set(f for f, _, _ in gens.filter_legal([f for f, _ in cc]))
    cases = ["gen\tC\t%s\t" % f for f, ch in cc if f in cc_legal] + cases
    cases = corpus + gen_cases_from_positions(geo, "C") + cases
    seen = set()
    cases = [c for c in cases if not (c in seen or seen.add(c))]
    res = V.run_cases(cases)
    mm, sm = V.compare(res, model_filter=rec_no_key_no_hint, spec_filter=no_key)
    report(o, "capture-only generation along capture chains", res, mm, sm,
           nontrivial=lambda r: "moves=" in (r.get("S") or "") and not (r.get("S") or "").endswith("moves="))
    # the same at the boards the text-move applier produces (what quiescence sees at the root of a `position ... moves ...`):
    # double steps declined and followed by piece or king moves, en passant available, game prefixes
    rc = ["roots\t%s\tC" % c for c in STALE_EP_SESSIONS]
    rc += ["roots\t%s\tC" % c for c in gens.ep_via_moves(gens.ep_geometry(rng, 150 if tier == "quick" else 3000))]
    for g in games[: (30 if tier == "quick" else 600)]:
        for kk in range(2, len(g.moves) + 1, 5):
            rc.append("roots\t%s\tC" % pos_cmd(g.start, g.moves[:kk]))
    rres = V.run_cases(rc)
    rmm, rsm = V.compare(rres)
    report(o, "capture-only generation after position commands (boards of the text-move applier)", rres, rmm, rsm,
           nontrivial=lambda r: (r.get("S") or "") not in ("", "roots "))
    hypothesis_obligation(o)
    o.rule = "capture-only generation at every prefix of capture chains (0-6 plies, followed through capture-only generation as quiescence does) from game positions, en-passant/promotion geometry and captures of unmoved corner rooks by every piece kind; non-trivial = at least one legal capture"


# ---------------------------------------------------------------- C04 / C05 / C10 (position command)
def pos_cmd(start, moves):
    if start == gens.START:
        base = "position startpos"
    else:
        base = "position fen " + start
    return base + (" moves " + " ".join(moves) if moves else "")


def shuffle_games(rng, n, cycles_max):
    """histories with repetitions: shuffles by both sides interleaved with irreversible moves"""
    games = gens.playouts(rng, gens.corpus_fens(), n, 14)
    out = []
    for g in games:
        if not g.moves:
            continue
        k = rng.randrange(0, len(g.moves) + 1)
        out.append((g.start, g.moves[:k], g.fens[k]))
    return out


def position_again_after_go(o):
    """the go in between plays the engine's move on its board; the identical position line must set X up again"""
    import blackbox
    ok = True
    for cmd in ("position fen 7k/8/5K2/8/8/8/8/6R1 b - - 0 1", "position startpos moves e2e4 e7e5",
                "position fen r3k2r/p1ppqpb1/bn2pnp1/3PN3/1p2P3/2N2Q1p/PPPBBPPP/R3K2R w KQkq - 0 1 moves e1g1"):
        eng = blackbox.Engine(V.BINARY)
        try:
            eng.handshake()
            eng.send(cmd)
            eng.send("go")
            a = eng.read_until(lambda l: l.startswith("bestmove"), 10)
            eng.send(cmd)
            eng.send("go")
            b = eng.read_until(lambda l: l.startswith("bestmove"), 10)
            o.evaluations += 2
            if a[-1] is None or a[-1] != b[-1]:
                ok = False
                o.violation("input", "`%s`, go, the same line again, go: answers %r then %r (the position was not set up again)" % (cmd, a[-1], b[-1]),
                            {"case": "%s | go | %s | go" % (cmd, cmd), "first": a[-1], "second": b[-1]})
        finally:
            eng.close()
    hist_add(o, "position line repeated after a go")
    return ok


@prop("C04", "C04.v", THEOREMS["C04"], binary=True)
def run_c04(o, tier, rng, prep):
    games = game_pool(rng, 40 if tier == "quick" else 1500, 60)
    tags_hist(o, games)
    cases = []
    for g in games:
        step = 4 if tier == "quick" else 1
        for k in list(range(0, len(g.moves) + 1, step)) + [len(g.moves)]:
            cases.append("pos\t" + pos_cmd(g.start, g.moves[:k]))
    seen = set()
    cases = [c for c in cases if not (c in seen or seen.add(c))]
    res = V.run_cases(cases)
    mm, sm = V.compare(res)
    report(o, "position command replay on prefixes of legal games", res, mm, sm, nontrivial=lambda r: " moves " in r["case"])
    # generator versus text applier: every generated move printed and replayed reproduces its successor
    pos = positions_of_games(games) + geometry_positions(rng, tier)
    if tier == "quick":
        rng.shuffle(pos)
        pos = pos[:800]
    rcases = ["replay\t%s\t" % f for f in pos]
    # also from parents that are themselves generated successors (inherited fields: promotion piece, ordering hint)
    for g in games:
        n = len(g.moves)
        for k in range(1, n, 4 if tier == "quick" else 1):
            j = max(0, k - rng.choice([1, 2]))
            rcases.append("replay\t%s\t%s" % (g.fens[j], " ".join(g.moves[j:k])))
    rcases += [c.replace("gen\tA\t", "replay\t") for c in
               [l.rstrip("\n") for l in open(os.path.join(V.VERIF, "corpus", "c02_regress.txt")) if l.startswith("gen\tA")]]
    res2 = V.run_cases(rcases)
    mm2, sm2 = V.compare(res2)
    report(o, "every generated move, printed and replayed through make_move, reproduces its own successor", res2, mm2, sm2,
           nontrivial=lambda r: True)
    okp = position_again_after_go(o)
    o.oblige("`position X`, `go`, `position X` again: the board is X again (the second answer equals the first)", okp)
    o.rule = "position commands for prefixes of specification-generated legal games from 40 starts (castling, en passant, promotions, corner rook moves/captures counted in input_distribution); plus generator-versus-text replay of every successor; non-trivial = at least one move replayed"


@prop("C05", "C05.v", THEOREMS["C05"])
def run_c05(o, tier, rng, prep):
    games = game_pool(rng, 40 if tier == "quick" else 1500, 60)
    cases = []
    for g in games:
        for k in range(0, len(g.moves) + 1, 5 if tier == "quick" else 1):
            # three producers of the same position: FEN loader, text replay, generator chain
            cases.append("fen\t" + gens.hexs(g.fens[k]))
            cases.append("pos\t" + pos_cmd(g.start, g.moves[:k]))
            j = max(0, k - 4)
            cases.append("gen\tA\t%s\t%s" % (g.fens[j], " ".join(g.moves[j:k])))
    res = V.run_cases(cases)
    mm, sm = V.compare(res)
    report(o, "key of FEN loader, text replay and generator chains against the from-scratch hash", res, mm, sm, nontrivial=lambda r: True)
    geo = geometry_positions(rng, tier)
    res_g = V.run_cases(gen_cases_from_positions(geo) + gen_cases_from_positions(geo[:400] if tier == "quick" else geo, "C"))
    mm_g, sm_g = V.compare(res_g)
    report(o, "keys of all generated successors (both modes) on castling/en-passant/promotion geometry, incl. castling with a pending en-passant target", res_g, mm_g, sm_g, nontrivial=moves_nontrivial)
    # the three producers must agree with each other on the key of the same position
    bad = 0
    for i in range(0, len(res) - 2, 3):
        keys = []
        for r in res[i:i + 3]:
            m = re.search(r"(?:Ok |root=)[^ #]*#([0-9a-f]{16})", r.get("P") or "")
            keys.append(m.group(1) if m else None)
        if len(set(keys)) != 1 or keys[0] is None:
            bad += 1
            o.violation("input", "route dependence: keys %s for %s" % (keys, res[i + 1]["case"]), {"cases": [r["case"] for r in res[i:i + 3]], "keys": keys})
    o.oblige("three producers agree on the key of the same position", bad == 0)
    o.rule = "every 1st/5th prefix of specification-generated games, reached three ways (FEN of the position, position command, chain of generated successors); each key compared with the specification's from-scratch hash and with the other two"


@prop("C10", "C10.v", THEOREMS["C10"], binary=True)
def run_c10(o, tier, rng, prep):
    cases = []
    n = 150 if tier == "quick" else 4000
    base = gens.playouts(rng, gens.corpus_fens(), n, 20)
    # knight/king/rook shuffles produce repetitions; interleave with the game's own (often irreversible) moves
    for g in base:
        if len(g.moves) < 2:
            continue
        cases.append("pos\t" + pos_cmd(g.start, g.moves))
    # explicit repetition families from the start position and two endgames
    shuffles = [
        (gens.START, ["g1f3", "g8f6", "f3g1", "f6g8"]),
        (gens.START, ["b1c3", "b8c6", "c3b1", "c6b8"]),
        ("q7/8/2k5/8/8/8/8/7K w - - 0 1", ["h1g1", "a8b8", "g1h1", "b8a8"]),
        ("7k/RR6/8/8/8/8/rr6/7K w - - 0 1", ["a7a6", "a2a3", "a6a7", "a3a2"]),
    ]
    for start, cyc in shuffles:
        for reps in range(0, 7 if tier == "quick" else 26):
            for cut in range(len(cyc)):
                mv = cyc * reps + cyc[:cut]
                cases.append("pos\t" + pos_cmd(start, mv))
        # repetitions interleaved with an irreversible move
        if start == gens.START:
            mv = cyc * 2 + ["e2e4", "e7e5"] + cyc * 3 + ["d2d4"] + cyc
            cases.append("pos\t" + pos_cmd(start, mv))
    seen = set()
    cases = [c for c in cases if not (c in seen or seen.add(c))]
    res = V.run_cases(cases)
    mm, sm = V.compare(res)
    report(o, "repetition record after the position command", res, mm, sm,
           nontrivial=lambda r: re.search(r"counts=.*[2-9]", r.get("S") or "") is not None)
    o.rule = "position commands for random legal games and for shuffle histories with 0-6 (thorough: 0-25) repetitions interleaved with irreversible moves; the table is compared entry by entry with the model and as a multiset of counts with the rules-level replay; the harness starts from a dirty table cleared as the dispatcher does; non-trivial = some position occurs at least twice"
    o.assumptions.append("64-bit Zobrist collisions: positions are identified with keys; collision-freedom on the history at hand is assumed")
    run_search_repetition(o, tier, rng)
    okg = go_twice_keeps_record(o)
    o.oblige("a second go without a new position still sees the game's repetitions (the record survives a go)", okg)
    okr = repetition_reset_probes(o, tier, rng)
    o.oblige("nothing of earlier position commands survives in the record (fresh versus used process on the binary)", okr)


GO_TWICE_SESSIONS = [
    # the side to move is in check with one legal move; after it the other side, far behind, can step into a
    # position that has already occurred twice: its search must score that move as a draw
    "position fen 1Q6/R7/R7/7k/6p1/8/5q1K/8 w - - 0 1 moves h2h1 f2f1 h1h2 f1f2 h2h1 f2f1",
    "position fen 8/5Q1k/8/6P1/7K/r7/r7/1q6 b - - 0 1 moves h7h8 f7f8 h8h7 f8f7 h7h8 f7f8",
]


def go_twice_keeps_record(o):
    """position <history with repetitions>; go; go : the second search still values the repetition move as a draw"""
    import blackbox
    ok = True
    for cmd in GO_TWICE_SESSIONS:
        eng = blackbox.Engine(V.BINARY)
        try:
            eng.handshake()
            eng.send(cmd)
            eng.send("go wtime 150 btime 150 movestogo 1")
            l1 = eng.read_until(lambda l: l.startswith("bestmove"), 10)
            eng.send("go wtime 475 btime 475 movestogo 1")
            l2 = eng.read_until(lambda l: l.startswith("bestmove"), 10)
            o.evaluations += 2
            case = "%s | go | go" % cmd
            if l1[-1] is None or l2[-1] is None:
                ok = False
                o.violation("input", "go not answered: %s" % case, {"case": case})
                continue
            last = {}
            for l in l2:
                m = re.search(r"depth (\d+) .*score (cp|mate) (-?\d+)", l or "")
                if m:
                    last[int(m.group(1))] = (m.group(2), int(m.group(3)))
            depths = sorted(last)
            for d in depths[:-1]:
                kind, v = last[d]
                if v < 0:
                    ok = False
                    o.violation("input", "second go: a move into a twice-seen position exists but depth %d reports %s %d: %s" % (d, kind, v, case),
                                {"case": case, "lines": [x for x in l2 if x]})
                    break
            hist_add(o, "go;go sessions on repetition histories")
        finally:
            eng.close()
    return ok


def run_search_repetition(o, tier, rng):
    """a move to a position already seen twice is valued as a draw: final score of each completed depth >= 0"""
    sessions = []
    for reps in (2, 3, 4):
        mv = ["h1g1", "a8b8", "g1h1", "b8a8"] * reps
        sessions.append(("q7/8/2k5/8/8/8/8/7K w - - 0 1", mv))
    # perpetual check: the move that completes the repetition gives check, and the checked side could leave the cycle
    sessions.append(("8/5ppk/7p/8/Q7/8/1rr5/7K w - - 0 1", ["a4e4", "h7g8", "e4e8", "g8h7", "e8e4", "h7g8", "e4e8", "g8h7"]))
    sessions.append(("7k/1RR5/8/q7/8/7P/5PPK/8 b - - 0 1", ["a5e5", "h2g1", "e5e1", "g1h2", "e1e5", "h2g1", "e5e1", "g1h2"]))
    cases = ["search\t%s\t%d" % (pos_cmd(s, m), 3000 if tier == "quick" else 20000) for s, m in sessions]
    res = V.run_cases(cases)
    mm, _ = V.compare(res, use_spec=False)
    o.evaluations += len(res)
    o.oblige("search model = implementation on repetition positions (node for node)", not mm)
    for r in mm[:2]:
        o.violation("corr", "search correspondence broken on %s: %s" % (r["case"][:120], V.first_diff(r.get("I"), r.get("M"))), {"case": r["case"], "impl": r.get("I"), "model": r.get("M")})
    for r in res:
        infos = (r.get("I") or "").split("infos=")[-1].split(" restored=")[0].split("|")
        last = {}
        for l in infos:
            m = re.search(r"depth (\d+) .*score (cp|mate) (-?\d+)", l)
            if m:
                last[int(m.group(1))] = (m.group(2), int(m.group(3)))
        # the last depth may be cut by the clock; all earlier depths are complete
        depths = sorted(last)
        for d in depths[:-1]:
            kind, v = last[d]
            if (kind == "cp" and v < 0) or (kind == "mate" and v < 0):
                o.violation("input", "a repetition move exists but depth %d reports %s %d: %s" % (d, kind, v, r["case"]), {"case": r["case"], "infos": infos})
    o.oblige("with a repetition move available every completed depth scores >= 0", not [v for v in o.violations if v[0] == "input"])


# ---------------------------------------------------------------- C06
@prop("C06", "C06.v", THEOREMS["C06"])
def run_c06(o, tier, rng, prep):
    if tier == "quick":
        # exhaustive king square x attacker kind x attacker square (24192 placements), sampled blockers
        fens = gens.check_geometry(rng, None) + gens.check_geometry(rng, 2500, with_blocker=True) + gens.random_placements(rng, 500)
    else:
        fens = gens.check_geometry(rng, None) + gens.check_geometry(rng, 60000, with_blocker=True) + gens.random_placements(rng, 20000)
    cases = ["chk\t" + f for f in fens]
    seen = set()
    cases = [c for c in cases if not (c in seen or seen.add(c))]
    res = V.run_cases(cases)
    mm, sm = V.compare(res)
    report(o, "is_check for both colours on attacker/blocker geometry and random placements", res, mm, sm,
           nontrivial=lambda r: "1" in (r.get("S") or "").split(" ")[-1])
    # the answer is also used right after moves applied by the text-move applier (its king caches): after position
    # commands that castle, the moves the search may choose from must be the legal ones (they are filtered by is_check)
    cg = [g for g in game_pool(rng, 40 if tier == "quick" else 600, 60) if any("castle" in t for t in g.tags)]
    rcases = []
    for g in cg:
        for kk in range(1, len(g.moves) + 1):
            if "castle" in g.tags[kk] or "castle" in g.tags[kk - 1]:
                rcases.append("roots\t" + pos_cmd(g.start, g.moves[:kk]))
    rcases += ["roots\tposition fen r3k2r/8/2P5/8/8/1Q6/8/R3K2R b KQkq - 0 1 moves e8c8 b3b7",
               "roots\tposition fen r3k2r/8/8/8/8/8/6q1/R3K2R w KQkq - 0 1 moves e1c1 g2b2",
               "roots\tposition fen r3k2r/8/8/8/8/8/8/R3K2R w KQkq - 0 1 moves e1g1 e8g8",
               "roots\tposition fen r3k2r/8/8/8/8/8/8/R3K2R w KQkq - 0 1 moves e1c1 e8c8"]
    rres = V.run_cases(rcases)
    rmm, rsm = V.compare(rres)
    report(o, "legal moves after position commands that castle (king caches of the text-move applier)", rres, rmm, rsm, nontrivial=lambda r: True)
    o.rule = "placements with one king each, legal or not: king square x attacker kind x attacker square (thorough: exhaustive 64*63*6) with an optional blocker on the segment, plus random placements; both colours judged; non-trivial = at least one side in check"
    o.extra["exhaustive_family"] = "king square x attacker kind x attacker square without blocker: 64*63*6 placements, enumerated completely in both tiers"


# ---------------------------------------------------------------- C15
@prop("C15", "C15.v", THEOREMS["C15"], binary=True)
def run_c15(o, tier, rng, prep):
    games = game_pool(rng, 40 if tier == "quick" else 1500, 60)
    legal = positions_of_games(games)
    valid, bad = gens.fen_strings(rng, legal, 600 if tier == "quick" else 20000, 1500 if tier == "quick" else 60000)
    # kings sharing a rank, a file or a diagonal (rare in game prefixes): the loader finds each of them
    valid += ["8/8/8/8/8/8/R7/4K2k b - - 12 300", "2k3K1/8/8/8/8/8/8/8 w - - 0 1", "8/8/8/1K3k2/8/8/8/8 b - - 3 70",
              "k7/8/8/8/8/8/8/K7 w - - 0 1", "7K/8/8/8/8/8/8/k7 b - - 0 1", "8/8/8/8/8/8/8/K1k5 w - - 0 1", "5k1K/8/8/8/8/8/8/8 b - - 9 9"]
    corpus = [json.loads(l) for l in open(os.path.join(V.VERIF, "corpus", "c15_regress.jsonl")) if l.strip()]
    res = V.run_cases(["fen\t" + gens.hexs(s) for s in corpus + bad])
    rejected = {s for s, r in zip(corpus + bad, res) if (r.get("I") or "").startswith("fen Err")}
    mm, sm = V.compare(res)
    report(o, "malformed FEN stream (outcome class and all fields)", res, mm, sm, nontrivial=lambda r: (r.get("I") or "") != "fen Err")
    for r in res:
        if (r.get("I") or "").startswith("fen Panic"):
            o.violation("input", "from_fen panics on %r" % r["case"], {"case": r["case"], "impl": r.get("I")})
    o.oblige("no panic on the malformed stream", not any((r.get("I") or "").startswith("fen Panic") for r in res))
    res = V.run_cases(["fen\t" + gens.hexs(s) for s in valid])
    mm, sm = V.compare(res)
    report(o, "well-formed FENs of legal positions with counters up to 2^32-1", res, mm, sm, nontrivial=lambda r: True)
    # faithful: the loaded position is the one the FEN states (expected projection from the specification's printer)
    nbad = 0
    for s, r in zip(valid, res):
        p = r.get("P") or ""
        if not p.startswith("fen Ok"):
            nbad += 1
            o.violation("input", "well-formed FEN of a legal position rejected: %r -> %s" % (s, p), {"fen": s, "impl": p})
            continue
        f = s.strip().split(" ")
        if expected_proj(f) != p.split(" ")[2].split("#")[0]:
            nbad += 1
            o.violation("input", "loaded position differs from the FEN: %r -> %s" % (s, p), {"fen": s, "impl": p, "expected": expected_proj(f)})
        # the king squares the record caches are the squares of the FEN's kings (12x12 coordinates: rank 8 is row 2, file a column 2)
        irec = (r.get("I") or "")
        if irec.startswith("fen Ok "):
            flds = irec[7:].split("|")
            want = {}
            for ri, row in enumerate(f[0].split("/")):
                col = 0
                for ch in row:
                    if ch.isdigit():
                        col += int(ch)
                    else:
                        if ch in "Kk":
                            want[ch] = "%d,%d" % (2 + ri, 2 + col)
                        col += 1
            if len(flds) > 4 and (flds[3] != want.get("K") or flds[4] != want.get("k")):
                nbad += 1
                o.violation("input", "king squares recorded as %s / %s, the FEN has its kings on %s / %s (12x12 coordinates): %r" % (flds[3], flds[4], want.get("K"), want.get("k"), s),
                            {"fen": s, "impl": irec, "expected_white_king": want.get("K"), "expected_black_king": want.get("k")})
    o.oblige("accepted and faithful on well-formed FENs (placement, side, rights, en-passant square, king squares)", nbad == 0)
    # command-line front end: prints the error and exits normally
    if os.path.exists(V.BINARY):
        n = 0
        for s in (corpus + bad)[: (40 if tier == "quick" else 400)]:
            if "\x00" in s:
                continue
            try:
                p = subprocess.run([V.BINARY, "--fen=" + s, "-T", "-d", "1"], capture_output=True, text=True, timeout=20)
            except Exception as e:
                o.violation("input", "front end did not finish on %r: %s" % (s, e), {"fen": s})
                continue
            n += 1
            # a string the loader accepts may still describe an illegal position (no king, ...): what the
            # perft run does with it is outside C15; the exit status is judged for the rejected strings
            if p.returncode != 0 and s in rejected:
                o.violation("input", "front end exits with status %d on %r: %s" % (p.returncode, s, p.stderr[-200:]), {"fen": s, "status": p.returncode, "stderr": p.stderr[-500:]})
        o.evaluations += n
        o.oblige("command-line front end exits normally on malformed FENs (%d runs)" % n, not [v for v in o.violations if "front end" in v[1]])
    o.rule = "strings: regression corpus, malformed stream (field replaced by junk incl. 2-4 byte characters, truncation, over-long rows, swapped fields, bad counters, random alphabet strings) and FENs of specification-generated legal positions with counters in {0,1,7,99,255,256,300,5898,65535,2^32-1}; non-trivial = not rejected"


def expected_proj(f):
    rows = f[0].split("/")
    pl = ""
    for row in rows[::-1]:
        for ch in row:
            pl += "." * int(ch) if ch.isdigit() else ch
    rights = "".join("1" if c in f[2] else "0" for c in "KQkq")
    ep = "-"
    if f[3] != "-":
        ep = "%d,%d" % ("abcdefgh".index(f[3][0]), int(f[3][1]) - 1)
    return "%s/%s/%s/%s" % (pl, f[1], rights, ep)


def replay(pid, path):
    d = json.load(open(path))
    print(json.dumps(d, indent=1)[:4000])
    rp = d.get("replay", {})
    case = rp.get("case")
    if case:
        V.prepare()
        res = V.run_cases([case])
        for k in "IMPS":
            print(k, (res[0].get(k) or "")[:2000])
    return 0


# ================================================================= search-based properties
INFO_RE = re.compile(r"^info pv((?: [a-h][1-8][a-h][1-8])+) depth (\d+) nodes (\d+) score (?:cp (-?\d+)|mate (-?\d+))$")


def parse_search(line):
    """fields of a harness/driver search line"""
    d = {"raw": line or ""}
    m = re.match(r"search panic=(\d) consulted=(\d+) sends=(.*?) infos=(.*) restored=(\d)(.*)$", line or "")
    if not m:
        d["bad"] = True
        return d
    d["panic"] = int(m.group(1))
    d["consulted"] = int(m.group(2))
    d["sends"] = [s for s in m.group(3).split(";") if s]
    d["infos"] = [s for s in m.group(4).split("|") if s]
    d["restored"] = int(m.group(5))
    d["tail"] = m.group(6)
    return d


def small_positions(rng, n, max_pieces=10):
    """legal non-terminal positions with few pieces (so that shallow searches are cheap)"""
    starts = [f for f in gens.corpus_fens() if sum(c.isalpha() for c in f.split(" ")[0]) <= max_pieces + 4]
    games = gens.playouts(rng, starts, n, 24)
    out = []
    seen = set()
    for g in games:
        for k, f in enumerate(g.fens):
            pieces = sum(c.isalpha() for c in f.split(" ")[0])
            if pieces <= max_pieces and "terminal" not in g.tags[k] and f not in seen:
                seen.add(f)
                out.append((g.start, g.moves[:k], f))
    rng.shuffle(out)
    return out


def root_legal_moves(fens):
    """specification: legal moves (uci text) of each FEN"""
    res = V.run_sharded([V.DRIVER, V.ZDUMP], ["gen\tA\t%s\t" % f for f in fens])
    out = []
    for l in res:
        if l.startswith("S "):
            mv = l.split("moves=")[-1] if "moves=" in l else ""
            out.append(set(x.split("=")[0] for x in mv.split(",") if re.match(r"^[a-h][1-8][a-h][1-8][qrbn]?=", x)))
    return out


def check_info_lines(o, case, infos, legal, mate_score):
    """C18: grammar, depth monotone, strictly increasing within a depth, bounds, first pv move legal"""
    bad = []
    last_depth = 0
    last_score = None
    for l in infos:
        m = INFO_RE.match(l)
        if not m:
            bad.append("malformed info line: %r" % l)
            continue
        pv = m.group(1).strip().split(" ")
        depth = int(m.group(2))
        if depth < 1 or depth < last_depth:
            bad.append("depth decreases or is < 1: %r" % l)
        if m.group(4) is not None:
            x = int(m.group(4))
            if abs(x) >= mate_score:
                bad.append("cp score reaches the mate/infinity range: %r" % l)
            val = x
        else:
            y = int(m.group(5))
            if y == 0:
                bad.append("mate 0: %r" % l)
            # order mate scores for the monotonicity test: mate in fewer moves is better
            val = (10 ** 7 - y) if y > 0 else (-10 ** 7 - y)
        if depth == last_depth and last_score is not None and not (val > last_score):
            bad.append("score does not increase within depth %d: %r" % (depth, l))
        if legal is not None and pv[0] not in set(x[:4] for x in legal):
            bad.append("first pv move %s is not legal in the searched position: %r" % (pv[0], l))
        last_depth, last_score = depth, val
    for b in bad[:3]:
        o.violation("input", "%s on %s" % (b, case), {"case": case, "infos": infos})
    return not bad


def mate_score_const():
    txt = open(os.path.join(V.COQ, "Gen", "Consts.v")).read()
    return int(re.search(r"Definition MATE_SCORE : Z := (\d+)", txt).group(1))


# forced mates of both colours: once the mate is proven the remaining iterations must still go on to greater depths
# (or stop) - never report the same depth again
SWEEP_MATE_FENS = [
    "6k1/8/6K1/8/8/8/8/R7 w - - 0 1",            # Ra8#
    "r7/8/8/8/8/6k1/8/6K1 b - - 0 1",            # ...Ra1#
    "7k/8/5K2/8/8/8/8/6RR w - - 0 1",            # mate in two
    "6rr/8/8/8/8/5k2/8/7K b - - 0 1",
]
# positions whose search touches the rarely taken paths of the node: a repetition return (history with a twice-seen
# position inside the horizon), a stalemate node one ply down, black castling long as the best root move
SWEEP_EXTRA = [
    ("q7/8/2k5/8/8/8/8/7K w - - 0 1", ["h1g1", "a8b8", "g1h1", "b8a8", "h1g1", "a8b8", "g1h1", "b8a8"]),
    ("7k/8/8/8/8/8/8/1Q4K1 w - - 0 1", ["b1c1", "h8g8", "c1b1", "g8h8", "b1c1", "h8g8", "c1b1"]),
    ("7k/5Q2/8/8/8/8/8/K7 w - - 0 1", []),
    ("k7/8/8/8/8/8/2q5/7K b - - 0 1", []),
    ("r3k2K/7P/8/5n2/8/8/6B1/8 b q - 0 1", []),
    ("k2R4/8/8/8/8/8/8/4K2R w K - 0 1", []),
]
FORCED_MOVE_FENS = [
    "7k/8/8/8/8/8/6q1/K7 w - - 0 1",
    "k7/6Q1/8/8/8/8/8/7K b - - 0 1",
    "6rk/7p/8/8/8/7n/5P1P/5RK1 w - - 0 1",
    "k7/2K5/8/8/8/8/8/1R6 b - - 0 1",
]


def sweep_expiry(o, tier, rng, want_c18=False, hunt=False):
    """C07/C18: for small searches enumerate every expiry index k from 0 up to the end of a reference run"""
    # roots with exactly one legal move come first: there the root loop meets the clock at other places
    # (an expiry inside the only move's subtree is noticed one iteration later)
    extra = []
    for st_, mv_ in SWEEP_EXTRA:
        fen_ = proj_to_fen(legal_after([pos_cmd(st_, mv_)])[0]) if mv_ else st_
        extra.append((st_, mv_, fen_))
    pos = [(f, [], f) for f in FORCED_MOVE_FENS + SWEEP_MATE_FENS] + extra + small_positions(rng, 30 if tier == "quick" else 400, max_pieces=7)
    npos = 10 + len(FORCED_MOVE_FENS) + len(SWEEP_MATE_FENS) + len(extra) if tier == "quick" else 120
    kmax = 100 if tier == "quick" else 260
    if hunt:
        # the correspondence broke: search harder for a concrete failing expiry point, on the implementation alone
        pos = pos + [(f, [], f) for f in ["8/8/4k3/8/8/3PK3/8/8 w - - 0 1", gens.START,
                                           "r3k2r/p1ppqpb1/bn2pnp1/3PN3/1p2P3/2N2Q1p/PPPBBPPP/R3K2R w KQkq - 0 1"]]
        npos = len(pos)
        kmax = 420
    pos = pos[:npos]
    legal = root_legal_moves([f for _, _, f in pos])
    mate = mate_score_const()
    cases = []
    index = []
    for pi, (start, moves, fen) in enumerate(pos):
        cmd = pos_cmd(start, moves)
        for k in range(0, kmax + 1):
            cases.append("search\t%s\t%d" % (cmd, k))
            index.append((pi, k))
    if hunt:
        hout = V.run_sharded([V.HARNESS], cases)
        res = [dict(case=c) for c in cases]
        i = -1
        for l in hout:
            if l[:1] == "I":
                i += 1
            if 0 <= i < len(res) and l[:1] in "IO":
                res[i][l[:1]] = l[2:]
        mm = []
        o.evaluations += len(res)
        hist_add(o, "batch:hunt for a failing expiry index on the implementation, 0..%d" % kmax, len(res))
    else:
        res = V.run_cases(cases)
        mm, _ = V.compare(res, use_spec=False)
        o.evaluations += len(res)
        o.traces += len(res)
        hist_add(o, "batch:search runs with every expiry index 0..%d" % kmax, len(res))
        o.oblige("search model = implementation for every expiry index (sends, info lines, consultations, table; %d runs)" % len(res), not mm)
        for r in mm[:3]:
            o.violation("corr", "search correspondence broken on %s: %s" % (r["case"][:160], V.first_diff(r.get("I"), r.get("M"))),
                        {"correspondence": "search", "case": r["case"], "impl": r.get("I"), "model": r.get("M")})
    ok_a = ok_b = ok_c = ok_d = ok_e = ok_18 = True
    prev = {}
    distinct = 0
    for (pi, k), r in zip(index, res):
        d = parse_search(r.get("I"))
        case = r["case"]
        if d.get("bad"):
            ok_e = False
            o.violation("input", "search did not complete normally: %s -> %s" % (case, (r.get("I") or "")[:200]), {"case": case, "impl": r.get("I")})
            continue
        if d["panic"]:
            ok_e = False
            o.violation("input", "search panics with expiry index %d: %s" % (k, case), {"case": case, "impl": r.get("I")})
        if not d["restored"]:
            ok_d = False
            o.violation("input", "repetition record not restored with expiry index %d: %s" % (k, case), {"case": case, "impl": r.get("I")})
        lm = legal[pi] if pi < len(legal) else None
        for s in d["sends"]:
            if lm is not None and s.split("#")[0] not in lm:
                ok_a = False
                o.violation("input", "handed-back move %s is not a legal root move (expiry %d): %s" % (s.split("#")[0], k, case), {"case": case, "send": s, "legal": sorted(lm)})
        if not d["sends"] and lm:
            ok_a = False
            o.violation("input", "nothing handed back although the root has moves (expiry %d): %s" % (k, case), {"case": case, "impl": r.get("I")})
        # no value of an aborted sub-search in a report
        for l in d["infos"]:
            m = INFO_RE.match(l)
            if m and m.group(4) is not None and abs(int(m.group(4))) >= mate:
                ok_b = False
                o.violation("input", "aborted value reaches a report (expiry %d): %r on %s" % (k, l, case), {"case": case, "info": l})
        # prefix: a larger allowance only extends the reports
        if (pi, k - 1) in prev:
            pd = prev[(pi, k - 1)]
            if pd["infos"] != d["infos"][:len(pd["infos"])]:
                ok_c = False
                o.violation("input", "reports under expiry %d are not a prefix of those under %d: %s" % (k - 1, k, case), {"case": case, "shorter": pd["infos"], "longer": d["infos"]})
            if pd["infos"] and pd["sends"] != d["sends"][:len(pd["sends"])]:
                ok_c = False
                o.violation("input", "accepted moves under expiry %d are not a prefix of those under %d: %s" % (k - 1, k, case), {"case": case, "shorter": pd["sends"], "longer": d["sends"]})
        if not d["infos"]:
            # nothing completed: the fallback is the first move of the search's own ordering
            first = (r.get("O") or "").split(";")[0].split(" ")[0]
            if d["sends"] and first and d["sends"][0].split("#")[0] != first:
                ok_c = False
                o.violation("input", "fallback move %s is not the first move of the ordering (%s): %s" % (d["sends"][0].split("#")[0], first, case), {"case": case})
        prev[(pi, k)] = d
        if want_c18:
            ok_18 = check_info_lines(o, case, d["infos"], lm, mate) and ok_18
        if 0 < k < d["consulted"] or d["infos"]:
            distinct += 1
    o.distinct += distinct
    for r in res[:3]:
        o.samples.append(r["case"])
    out = dict(a=ok_a, b=ok_b, c=ok_c, d=ok_d, e=ok_e, c18=ok_18, kmax=kmax, npos=len(pos))
    if mm and not hunt and not any(v[0] == "input" for v in o.violations):
        h = sweep_expiry(o, tier, rng, want_c18=want_c18, hunt=True)
        for key in "abcde":
            out[key] = out[key] and h[key]
        out["c18"] = out["c18"] and h["c18"]
    return out


ZERO_ALLOWANCE_FENS = [
    "4k3/8/8/7P/8/8/r7/R3K3 w - - 0 1",          # a capture is ordered before the quiet moves of earlier-scanned pieces
    "4k3/8/8/8/8/8/r7/R3K3 b - - 0 1",
    "r3k3/R7/8/8/8/8/7p/4K3 b - - 0 1",
    "4k3/7P/8/8/8/8/r7/R3K3 w - - 0 1",          # promotion ordered first
]


def zero_allowance_fallback(o, tier, rng):
    """no evaluation completes under a zero allowance: the binary must answer with the first move of the search's
    ordering (what get_best_move hands back when the clock has expired at its first consultation)"""
    import blackbox
    pos = [(f, [], f) for f in ZERO_ALLOWANCE_FENS] + small_positions(rng, 12 if tier == "quick" else 120, max_pieces=10)[:12 if tier == "quick" else 120]
    cases = ["search\t%s\t0" % pos_cmd(st_, mv_) for st_, mv_, _ in pos]
    hout = V.run_sharded([V.HARNESS], cases)
    firsts = []
    for l in hout:
        if l[:1] == "I":
            d = parse_search(l[2:])
            firsts.append(d["sends"][0].split("#")[0] if not d.get("bad") and d["sends"] else None)
    ok = True
    eng = blackbox.Engine(V.BINARY)
    try:
        eng.handshake()
        for (st_, mv_, fen), want in zip(pos, firsts):
            cmd = pos_cmd(st_, mv_)
            stm = fen.split(" ")[1]
            eng.send(cmd)
            eng.send("go wtime 50 btime 50")
            ls = eng.read_until(lambda l: l.startswith("bestmove"), 10)
            o.evaluations += 1
            got = ls[-1].split(" ")[1] if ls[-1] else None
            if want is None or got != want:
                ok = False
                o.violation("input", "zero allowance: the binary answers %s, the first move of the search's ordering is %s: %s | go wtime 50 btime 50" % (got, want, cmd),
                            {"case": cmd + " | go wtime 50 btime 50", "binary": got, "ordering_first": want})
        hist_add(o, "zero-allowance answers compared with the search's ordering", len(pos))
    finally:
        eng.close()
    return ok


@prop("C07", "C07.v", THEOREMS["C07"], binary=True)
def run_c07(o, tier, rng, prep):
    r = sweep_expiry(o, tier, rng)
    o.oblige("(a) every handed-back move is a legal root move, and one is always handed back", r["a"])
    o.oblige("(b) no aborted value in a reported score", r["b"])
    o.oblige("(c) reports under expiry k are a prefix of those under k+1; fallback = first move of the ordering", r["c"])
    o.oblige("(d) repetition record restored on every exit path", r["d"])
    o.oblige("(e) no panic", r["e"])
    okz = zero_allowance_fallback(o, tier, rng)
    o.oblige("zero allowance on the binary: the move handed back is the first move of the search's own ordering", okz)
    o.rule = "%d small legal positions (<= 7 pieces, with their game history) x every expiry index k = 0..%d of the virtual clock (the k-th consultation reports expiry), run on the real get_best_move through the hooks and replayed node for node on the model with the logged sort orders; non-trivial = k falls strictly inside the search or at least one improvement was reported" % (r["npos"], r["kmax"])
    o.assumptions.append("ply < 100 (array bounds of pv/killer tables): maximal ply observed is far below; hypothesis of the model, not proved")
    o.assumptions.append("two-thread composition: after the join added by the F10 repair the I/O thread only consumes sends; FIFO delivery of mpsc assumed")


@prop("C18", "C18.v", THEOREMS["C18"], binary=True)
def run_c18(o, tier, rng, prep):
    r = sweep_expiry(o, tier, rng, want_c18=True)
    o.oblige("info lines well-formed, depth monotone, scores strictly increasing within a depth, bounded, first pv move legal -- for every expiry index", r["c18"] and r["b"])
    o.rule = "info lines captured from the real search (hook H3) on %d small positions x every expiry index 0..%d, plus the stdout of timed searches on the real binary; non-trivial = at least one info line" % (r["npos"], r["kmax"])
    # the real binary's stdout under real clocks
    bb = blackbox_searches(o, tier, rng, slices=(5, 30, 80) if tier == "quick" else (1, 5, 30, 80, 200, 400), n=6 if tier == "quick" else 40)
    mate = mate_score_const()
    ok = True
    for case, fen, legal, lines, _ in bb:
        infos = [re.sub(r" time \d+$", "", l) for l in lines if l.startswith("info")]
        ok = check_info_lines(o, case, infos, legal, mate) and ok
    o.oblige("info lines on the real binary's stdout (%d timed searches)" % len(bb), ok)
    # finished games and forced answers: whatever is printed before `bestmove` is a well-formed info line too
    import blackbox
    full = re.compile(r"^info pv( [a-h][1-8][a-h][1-8])+ depth [1-9]\d* nodes \d+ score (cp -?\d+|mate -?[1-9]\d*) time \d+$")
    okt = True
    eng = blackbox.Engine(V.BINARY)
    try:
        eng.handshake()
        for cmd, _ in TERMINAL_SESSIONS:
            for go in ("go", "go wtime 300 btime 300 movestogo 1"):
                eng.send(cmd)
                eng.send(go)
                lines = eng.read_until(lambda l: l.startswith("bestmove"), timeout=6)
                o.evaluations += 1
                for l in lines:
                    if l is not None and not l.startswith("bestmove") and not full.match(l):
                        okt = False
                        o.violation("input", "line %r printed for a finished game is not a well-formed info line: %s | %s" % (l, cmd, go), {"case": "%s | %s" % (cmd, go), "line": l})
        hist_add(o, "finished games on the binary")
    finally:
        eng.close()
    o.oblige("nothing but well-formed info lines precedes bestmove when the game is already over (%d sessions)" % (2 * len(TERMINAL_SESSIONS)), okt)


CYCLE_TO_ROOT_FENS = [
    "6k1/6p1/8/7Q/8/8/rr3PPP/bn4K1 w - - 0 1",       # Qe8+ Kh7 Qh5+ Kg8 returns to the root: a second occurrence only
    "BN4k1/RR3ppp/8/8/7q/8/6P1/6K1 b - - 0 1",
]
UNDERPROMOTION_FENS = [
    "8/5P1k/5K2/8/8/8/8/8 w - - 0 1",            # f8=Q is stalemate, f8=R wins
    "8/8/8/8/8/5k2/5p1K/8 b - - 0 1",            # mirror of it for black
    "6k1/5P2/6K1/8/8/8/8/8 b - - 0 1",
    "8/k1P5/8/1K6/8/8/8/8 w - - 0 1",            # c8=Q stalemate? c8=R wins
    "8/2P1k3/8/8/8/8/8/K2q4 w - - 0 1",
    "5k2/3P1P2/4K3/8/8/8/8/8 w - - 0 1",
    "r5k1/5p1p/5Bp1/8/8/4Q3/5p1K/8 w - - 0 1",  # only ...f1=N+ defends (minimised witness of a seeded change)
    "8/8/8/8/8/1k6/p7/K7 b - - 0 1",
    "n1n5/PPPk4/8/8/8/8/4Kppp/5N1N b - - 0 1",
    "8/PPP4k/8/8/8/8/4Kppp/8 w - - 0 1",
    "4k3/P6P/8/8/8/8/p6p/4K3 w - - 0 1",
    # an under-promotion *capture* at the horizon is strictly best (b7xc8=N+ / g2xf1=N+): witnesses of a seeded change
    "2bk4/1P4Np/p1P5/B3n3/8/5QP1/7P/6K1 b - - 0 1",
    "8/8/8/8/q7/8/4K1p1/k4N1R w - - 0 1",
]


def judge_against_minimax(o, cases, res):
    """final score and first pv move of every completed depth 1..3 against the extracted negamax oracle"""
    ocases = ["oracle\t%s\t3" % c.split("\t")[1] for c in cases]
    ores = V.run_sharded([V.DRIVER, V.ZDUMP], ocases)
    oracle = [l[2:] for l in ores if l.startswith("S ")]
    ok = True
    judged = 0
    for r, orc in zip(res, oracle):
        d = parse_search(r.get("I"))
        if d.get("bad"):
            continue
        per_depth = {}
        for l in d["infos"]:
            m = INFO_RE.match(l)
            if m:
                per_depth[int(m.group(2))] = (("cp %s" % m.group(4)) if m.group(4) is not None else ("mate %s" % m.group(5)), m.group(1).strip().split(" ")[0])
        maxd = max(per_depth) if per_depth else 0
        # every reported improvement hands its move back (send i belongs to info i; a last send without info is the fallback)
        sends = [x.split("#")[0] for x in d["sends"]]
        if len(sends) < len(d["infos"]):
            ok = False
            o.violation("input", "%d improvements reported but only %d moves handed back: %s" % (len(d["infos"]), len(sends), r["case"]),
                        {"case": r["case"], "infos": d["infos"], "sends": sends})
        last_idx = {}
        for i_, l in enumerate(d["infos"]):
            m_ = INFO_RE.match(l)
            if m_:
                last_idx[int(m_.group(2))] = i_
        for dd in (1, 2, 3):
            # a depth is complete when a deeper one was started
            if dd < maxd and dd in per_depth:
                m = re.search(r"d%d=([^:]+):(\S+)" % dd, orc)
                if not m:
                    continue
                judged += 1
                score, first = per_depth[dd]
                short, _, full = m.group(2).partition(";")
                # the move handed back with the last improvement of this depth is the selected move (promotion letter included)
                sel = sends[last_idx[dd]] if dd in last_idx and last_idx[dd] < len(sends) else None
                if full and sel is not None and sel not in full.split(","):
                    ok = False
                    o.violation("input", "depth %d: the move handed back is %s, the minimax value %s is attained by %s: %s" % (dd, sel, m.group(1), full, r["case"]),
                                {"case": r["case"], "selected": sel, "oracle": orc})
                if score != m.group(1) or first not in short.split(","):
                    ok = False
                    o.violation("input", "depth %d: engine reports %s via %s, minimax value is %s attained by %s: %s" % (
                        dd, score, first, m.group(1), m.group(2), r["case"]), {"case": r["case"], "engine": per_depth, "oracle": orc})
    return ok, judged


def impl_only(cases):
    hout = V.run_sharded([V.HARNESS], cases)
    res = [dict(case=c) for c in cases]
    i = -1
    for l in hout:
        if l[:1] == "I":
            i += 1
        if 0 <= i < len(res) and l[:1] in "IO":
            res[i][l[:1]] = l[2:]
    return res


@prop("C12", "C12.v", THEOREMS["C12"])
def run_c12(o, tier, rng, prep):
    pos = small_positions(rng, 40 if tier == "quick" else 600, max_pieces=9)
    pos = pos[: (24 if tier == "quick" else 240)]
    budget = 6000 if tier == "quick" else 12000
    cases = []
    for start, moves, fen in pos:
        cases.append("search\t%s\t%d" % (pos_cmd(start, moves), budget))    # with its game history
        cases.append("search\tposition fen %s\t%d" % (fen, budget))          # without history
    for f, n, _ in gens.filter_legal(UNDERPROMOTION_FENS + CYCLE_TO_ROOT_FENS):
        if n > 0:
            cases.append("search\tposition fen %s\t%d" % (f, budget))
    # histories with repetitions: a drawing repetition move at the horizon
    for start, cyc in (("q7/8/2k5/8/8/8/8/7K w - - 0 1", ["h1g1", "a8b8", "g1h1", "b8a8"]),
                       ("6k1/8/8/8/8/8/8/K2Q4 w - - 0 1", ["d1d2", "g8h8", "d2d1", "h8g8"])):
        for reps in (1, 2):
            for cut in range(4):
                cases.append("search\t%s\t%d" % (pos_cmd(start, cyc * reps + cyc[:cut]), budget))
    res = V.run_cases(cases)
    mm, _ = V.compare(res, use_spec=False)
    o.evaluations += len(res)
    o.traces += len(res)
    o.oblige("search model = implementation node for node on %d searches" % len(res), not mm)
    for r in mm[:3]:
        o.violation("corr", "search correspondence broken on %s: %s" % (r["case"][:160], V.first_diff(r.get("I"), r.get("M"))),
                    {"correspondence": "search", "case": r["case"], "impl": r.get("I"), "model": r.get("M")})
    ok, judged = judge_against_minimax(o, cases, res)
    if mm and ok:
        # the correspondence broke: hunt for a position where the reported value is not the minimax value
        hp = [f for f, n, _ in gens.filter_legal(gens.promotion_geometry(rng, 400) + gens.ep_geometry(rng, 150)) if n > 0
              and sum(c.isalpha() for c in f.split(" ")[0]) <= 9][:160]
        more = small_positions(rng, 120, max_pieces=8)[:120]
        hcases = ["search\tposition fen %s\t%d" % (f, 8000) for f in hp] + \
                 ["search\t%s\t%d" % (pos_cmd(s_, m_), 8000) for s_, m_, _ in more]
        hres = impl_only(hcases)
        ok2, j2 = judge_against_minimax(o, hcases, hres)
        o.evaluations += len(hres)
        hist_add(o, "hunt: searches judged after the correspondence broke", len(hres))
        ok = ok and ok2
        judged += j2
    o.distinct += judged
    hist_add(o, "depth-results judged against the minimax oracle", judged)
    o.oblige("reported score = minimax value and selected move attains it, depths 1-3 (%d depth results)" % judged, ok)
    for r in res[:3]:
        o.samples.append(r["case"])
    o.rule = "legal non-terminal positions with <= 9 pieces from specification-generated games, each searched with its game history in the repetition record and without, plus under-promotion/stalemate positions and shuffle histories offering a repetition at the horizon; final score and first PV move of every completed depth 1..3 judged against the extracted plain alpha-beta negamax over the model's generator/evaluation; non-trivial = one judged depth result"


CAPTURE_HEAVY_FENS = [
    "rnbqkbnr/qqqqqqqq/8/8/8/8/QQQQQQQQ/RNBQKBNR w - - 0 1",     # (F11) before the repair: no answer within 40 s
    "rnbqkbnr/qqqqqqqq/8/8/8/8/QQQQQQQQ/RNBQKBNR b - - 0 1",
    "qqqqkqqq/qq6/8/8/8/8/QQ6/QQQQKQQQ w - - 0 1",
    "1q2k1q1/qq3qqq/8/8/8/8/QQ3QQQ/1Q2K1Q1 b - - 0 1",
]


def blackbox_searches(o, tier, rng, slices, n):
    """timed searches on the real binary; returns (case, fen, legal moves, stdout lines of the reply, seconds)"""
    import blackbox
    # capture-heavy positions first: their quiescence trees are huge, the answer must still come on time
    pos = [(f, [], f) for f in CAPTURE_HEAVY_FENS] + small_positions(rng, n * 2, max_pieces=14)[:n]
    legal = root_legal_moves([f for _, _, f in pos])
    out = []
    eng = blackbox.Engine(V.BINARY)
    try:
        eng.handshake()
        for i, (start, moves, fen) in enumerate(pos):
            sl = slices[i % len(slices)]
            # movestogo 1: slice = 0.8 * (clock - 100)
            clock = int(sl / 0.8) + 100
            cmd = pos_cmd(start, moves)
            stm = fen.split(" ")[1]
            go = "go wtime %d btime %d movestogo 1" % ((clock, 99999) if stm == "w" else (99999, clock))
            eng.send(cmd)
            t0 = time.time()
            eng.send(go)
            lines = eng.read_until(lambda l: l.startswith("bestmove"), timeout=sl / 1000.0 + 10)
            dt = time.time() - t0
            out.append(("%s | %s" % (cmd, go), fen, legal[i] if i < len(legal) else None, lines, dt))
            o.evaluations += 1
    finally:
        eng.close()
    return out


# ---------------------------------------------------------------- C11
MATE_FENS = [
    "6br/5Ppk/7p/8/8/8/8/K7 w - - 0 1",               # the only mate is f8=N#
    "k7/8/8/8/8/7P/5pPK/6BR b - - 0 1",               # ...f1=N#
    "6bk/8/6K1/8/7B/8/8/8 w - - 0 1",                 # one minor piece each, and still a mate in one: Bf6#
    "8/8/8/7b/8/6k1/8/6BK b - - 0 1",                 # ...Bf3#
    "6k1/5ppp/8/8/8/8/8/R5K1 w - - 0 1",            # back-rank mate in one
    "7k/5Q2/6K1/8/8/8/8/8 w - - 0 1",                # several mates in one, and stalemating moves
    "7k/8/5K2/6Q1/8/8/8/8 w - - 0 1",                # stalemate trap Qg6?? vs mates
    "k7/8/1K6/8/8/8/8/7R w - - 0 1",                 # Rh8#
    "8/8/8/8/8/5k2/8/5K1R w - - 0 1",
    "4k3/8/4K3/8/8/8/8/7R w - - 0 1",
    "7k/R7/5K2/8/8/8/8/8 w - - 0 1",
    "5k2/R7/5K2/8/8/8/8/8 w - - 0 1",                # mate in 2 region
    "1k6/8/1K6/8/8/8/8/7Q w - - 0 1",
    "r5k1/5ppp/8/8/8/8/5PPP/6K1 b - - 0 1",          # black mates on the back rank
    "6k1/5ppp/8/8/8/8/r4PPP/6K1 w - - 0 1",          # white must avoid being mated in one
    "6k1/5ppp/8/8/8/8/r4PPP/5RK1 w - - 0 1",
    "k7/2Q5/1K6/8/8/8/8/8 b - - 0 1",                # black is stalemated? (no: b8 free) near-stalemate
    "k7/2Q5/2K5/8/8/8/8/8 w - - 0 1",                # Qc8# / Qb7# vs stalemate Kb6
    "7k/5K2/6Q1/8/8/8/8/8 b - - 0 1",                # black stalemated: terminal, skipped by the generator
    "8/8/8/8/8/6k1/6p1/6K1 w - - 0 1",               # white stalemated
    "5rk1/5ppp/8/8/8/8/Q4PPP/6K1 w - - 0 1",
    "3r2k1/5ppp/8/8/8/8/5PPP/3R2K1 w - - 0 1",
    "2r3k1/5ppp/8/8/8/8/5PPP/3R2K1 b - - 0 1",
    "8/8/8/8/8/2k5/1q6/K7 w - - 0 1",
    "8/8/8/8/8/1k6/2q5/K7 b - - 0 1",                # many mates in one for black
    "8/8/8/8/8/1k6/7q/K7 b - - 0 1",
]


EP_MATE_SESSIONS = [
    ("position fen 8/4Np2/7p/R3P2k/8/5KP1/8/8 b - - 0 1 moves f7f5", "e5f6"),
    ("position fen 8/8/5kp1/8/r3p2K/7P/4nP2/8 w - - 0 1 moves f2f4", "e4f3"),
]


def ep_mate_sessions(o):
    """the only mate in one is an en-passant capture of a pawn that has just double-stepped in the move list"""
    import blackbox
    ok = True
    for cmd, want in EP_MATE_SESSIONS:
        eng = blackbox.Engine(V.BINARY)
        try:
            eng.handshake()
            eng.send(cmd)
            eng.send("go wtime 2000 btime 2000 movestogo 1")
            ls = eng.read_until(lambda l: l.startswith("bestmove"), 10)
            o.evaluations += 1
            got = ls[-1].split(" ")[1] if ls[-1] else None
            if got != want:
                ok = False
                o.violation("input", "mate in one by en passant not played: %s -> %s (mating move %s)" % (cmd, ls[-1], want), {"case": cmd, "lines": [x for x in ls if x][-4:]})
        finally:
            eng.close()
    hist_add(o, "mate in one by en passant after a double step in the move list", len(EP_MATE_SESSIONS))
    return ok


CASTLE_MATE_SESSIONS = [
    # the side that has just castled - through the move list, so by the text-move applier - can be mated at once
    "position fen 6k1/5pbp/8/6p1/1q5Q/8/PPPN4/R3K2R w KQ - 0 1 moves e1c1",
    "position fen 7k/1b6/8/6q1/8/8/5PPP/R3K2R w KQ - 0 1 moves e1g1",
    "position fen r3k2r/pppn4/8/1Q5q/6P1/8/5PBP/6K1 b kq - 0 1 moves e8c8",
    "position fen r3k2r/5ppp/8/8/6Q1/8/1B6/7K b kq - 0 1 moves e8g8",
]


def castle_mate_sessions(o):
    """mate in one against a king that has just castled in the move list: the king square the applier records is the one
    every check test of the search looks at"""
    import blackbox
    ok = True
    for cmd in CASTLE_MATE_SESSIONS:
        fen = proj_to_fen(legal_after([cmd])[0])
        lm = sorted(root_legal_moves([fen])[0])
        after = [proj_to_fen(x) for x in legal_after([cmd + " " + m for m in lm])]
        replies = root_legal_moves(after)
        mates = {m for m, r in zip(lm, replies) if not r}
        if not mates:
            continue
        eng = blackbox.Engine(V.BINARY)
        try:
            eng.handshake()
            eng.send(cmd)
            eng.send("go wtime 2000 btime 2000 movestogo 1")
            ls = eng.read_until(lambda l: l.startswith("bestmove"), 10)
            o.evaluations += 1
            got = ls[-1].split(" ")[1] if ls[-1] else None
            if got not in mates:
                ok = False
                o.violation("input", "mate in one against the king that has just castled is not played: %s -> %s (mating moves: %s)" % (cmd, ls[-1], ",".join(sorted(mates))),
                            {"case": cmd, "lines": [x for x in ls if x][-4:], "mates": sorted(mates)})
            hist_add(o, "mate in one right after castling in the move list")
        finally:
            eng.close()
    return ok


@prop("C11", "C11.v", THEOREMS["C11"], binary=True)
def run_c11(o, tier, rng, prep):
    okca = castle_mate_sessions(o)
    o.oblige("a mate in one against a king that has just castled in the move list is played (all four castlings)", okca)
    okep = ep_mate_sessions(o)
    o.oblige("a mate in one that is an en-passant capture is played (position given with the double step in its move list)", okep)
    legal = gens.filter_legal(MATE_FENS)
    roots = [(f, [], f) for f, n, _ in legal if n > 0]
    roots += [(f, [], f) for f, n, _ in gens.filter_legal(UNDERPROMOTION_FENS) if n > 0 and sum(c.isalpha() for c in f.split(" ")[0]) <= 10]
    extra = small_positions(rng, 60 if tier == "quick" else 1200, max_pieces=5)
    roots += extra[: (25 if tier == "quick" else 600)]
    budget = 2500 if tier == "quick" else 12000
    cases = ["search\t%s\t%d" % (pos_cmd(s, m), budget) for s, m, _ in roots]
    res = V.run_cases(cases)
    mm, _ = V.compare(res, use_spec=False)
    o.evaluations += len(res)
    o.traces += len(res)
    o.oblige("search model = implementation node for node on %d searches near mate/stalemate" % len(res), not mm)
    for r in mm[:3]:
        o.violation("corr", "search correspondence broken on %s: %s" % (r["case"][:160], V.first_diff(r.get("I"), r.get("M"))),
                    {"correspondence": "search", "case": r["case"], "impl": r.get("I"), "model": r.get("M")})
    # questions for the rules-level mate solver
    q = []          # (kind, root index, info, oracle case)
    for ri, (r, (start, moves, fen)) in enumerate(zip(res, roots)):
        d = parse_search(r.get("I"))
        if d.get("bad"):
            continue
        cmd = pos_cmd(start, moves)
        per = []
        for j, l in enumerate(d["infos"]):
            m = INFO_RE.match(l)
            if m:
                per.append((j, int(m.group(2)), m.group(5), m.group(1).strip().split(" ")[0]))
        maxd = max([p[1] for p in per], default=0)
        for idx, (j, depth, mate, first) in enumerate(per):
            if mate is None:
                continue
            n = int(mate)
            if n == 0:
                o.violation("input", "engine reports `score mate 0`: %r on %s" % (d["infos"][j], cmd), {"case": cmd, "info": d["infos"][j]})
            last_of_depth = (idx + 1 == len(per)) or per[idx + 1][1] != depth
            if n > 0 and n <= 3:
                q.append(("claim+", ri, (l, n), "mate\t%s\t%d" % (cmd, n)))
            elif n < 0 and -n <= 2 and last_of_depth and depth < maxd:
                q.append(("claim-", ri, (l, n), "mate\t%s\t%d" % (cmd, -n)))
        q.append(("root1", ri, None, "mate\t%s\t1" % cmd))
        # moves handed back once iteration 1 (resp. 2) has finished
        done1 = [j for (j, depth, _, _) in per if depth == 1]
        done2 = [j for (j, depth, _, _) in per if depth == 2]
        if maxd > 1 and done1:
            for s in d["sends"][done1[-1]:]:
                mv = s.split("#")[0]
                sep = " " if " moves " in cmd else " moves "
                q.append(("after1", ri, mv, "mate\t%s%s%s\t1" % (cmd, sep, mv)))
        if maxd > 2 and done2:
            for s in d["sends"][done2[-1]:]:
                mv = s.split("#")[0]
                sep = " " if " moves " in cmd else " moves "
                q.append(("after2", ri, mv, "mate\t%s%s%s\t1" % (cmd, sep, mv)))
    # all root moves, to know whether being mated in one can be avoided
    lm = root_legal_moves([f for _, _, f in roots])
    for ri, (start, moves, fen) in enumerate(roots):
        cmd = pos_cmd(start, moves)
        sep = " " if " moves " in cmd else " moves "
        for mv in sorted(lm[ri]) if ri < len(lm) else []:
            q.append(("child", ri, mv, "mate\t%s%s%s\t1" % (cmd, sep, mv)))
    ans = [l[2:] for l in V.run_sharded([V.DRIVER, V.ZDUMP], [x[3] for x in q]) if l.startswith("S ")]
    o.evaluations += len(q)
    can_mate1 = {}
    child_mates = {}
    for (kind, ri, info, _), a in zip(q, ans):
        f = dict(kv.split("=") for kv in a.split(" ")[1:] if "=" in kv)
        if kind == "root1":
            can_mate1[ri] = f.get("in") == "1"
        if kind == "child":
            child_mates.setdefault(ri, {})[info] = f.get("in") == "1"   # opponent mates in one after this move
    ok_claims = ok_m1 = ok_avoid = True
    judged = 0
    for (kind, ri, info, oc), a in zip(q, ans):
        f = dict(kv.split("=") for kv in a.split(" ")[1:] if "=" in kv)
        case = cases[ri]
        if kind == "claim+":
            judged += 1
            if f.get("in") != "1":
                ok_claims = False
                o.violation("input", "engine reports %r but no forced mate in %d exists: %s" % (info[0], info[1], case), {"case": case, "info": info[0], "solver": a})
        elif kind == "claim-":
            judged += 1
            if f.get("mated") != "1":
                ok_claims = False
                o.violation("input", "engine reports %r but the side to move is not mated within %d: %s" % (info[0], -info[1], case), {"case": case, "info": info[0], "solver": a})
        elif kind == "after1" and can_mate1.get(ri):
            judged += 1
            if f.get("checkmate") != "1":
                ok_m1 = False
                o.violation("input", "mate in one exists and iteration 1 finished, yet %s (not mate) is handed back: %s" % (info, case), {"case": case, "move": info})
        elif kind == "after2":
            cm = child_mates.get(ri, {})
            if cm and not all(cm.values()) and not can_mate1.get(ri):
                judged += 1
                if f.get("in") == "1":
                    ok_avoid = False
                    o.violation("input", "after iteration 2 the engine plays %s into a mate in one that could be avoided: %s" % (info, case), {"case": case, "move": info})
    # the same two rules on the real binary, driven the way a GUI does (whole game resent before every go)
    okb = gui_mate_sessions(o, tier, rng)
    o.oblige("mate in one played / avoidable mate in one avoided in GUI-style sessions on the binary", okb)
    o.distinct += judged
    hist_add(o, "mate claims / mate-in-one / avoidance judgements", judged)
    o.oblige("every `score mate N` claim is true (N>0 every line; N<0 last line of a completed depth)", ok_claims)
    o.oblige("a mate in one is played once iteration 1 has finished", ok_m1)
    o.oblige("an avoidable mate in one is not played into once iteration 2 has finished", ok_avoid)
    for r in res[:3]:
        o.samples.append(r["case"])
    o.rule = "hand-built positions around mate and stalemate plus random <=5-piece positions from specification-generated games; every mate claim with |N| <= 3 judged by the rules-level AND/OR solver (Spec.mate_in / mated_in), stalemating moves included; non-trivial = one judged claim or move"
    o.assumptions.append("from iteration 4 on null-move pruning has no soundness theorem; those depths are judged by the solver on the sampled positions only")


def gui_mate_sessions(o, tier, rng):
    import blackbox
    games = [("4r1k1/ppp2ppp/8/8/8/8/5PPP/R5K1 w - - 0 1", ["a1a5", "g8h8", "a5a1", "h8g8"]),
             ("6k1/5ppp/8/8/8/8/r4PPP/5RK1 w - - 0 1", ["f1e1", "a2a5", "e1f1", "a5a2"]),
             ("r5k1/5ppp/8/8/8/8/5PPP/R5K1 w - - 0 1", ["a1a8"]),
             ("6k1/5ppp/8/8/8/8/8/R5K1 w - - 0 1", []),
             # the only mate is a knight promotion: the letter printed must be the knight's
             ("6br/5Ppk/7p/8/8/8/8/K7 w - - 0 1", []),
             ("k7/8/8/8/8/7P/5pPK/6BR b - - 0 1", [])]
    ok = True
    # tiny slices: the first iteration finishes (it prints `mate 1`), many improvements are handed over within a
    # millisecond, and the answer must be the newest of them (F13: the polling loop used to be able to leave with an
    # older one) - judged only when `score mate 1` was printed
    eng = blackbox.Engine(V.BINARY)
    try:
        eng.handshake()
        stale = None
        nconc = 0
        for _ in range(60 if tier == "quick" else 600):
            eng.send("position fen 6k1/5ppp/8/8/8/8/5PPP/R5K1 w - - 0 1")
            eng.send("go wtime 350 btime 350")
            ls = eng.read_until(lambda l: l.startswith("bestmove"), 10)
            o.evaluations += 1
            if ls[-1] is None:
                stale = ls
                break
            if any(l and l.startswith("info") and "score mate 1" in l for l in ls):
                nconc += 1
                if ls[-1].split(" ")[1] != "a1a8":
                    stale = ls
                    break
        if stale is not None:
            ok = False
            o.violation("input", "`score mate 1` was printed but the answer is %r: position fen 6k1/5ppp/8/8/8/8/5PPP/R5K1 w - - 0 1 | go wtime 350 btime 350" % (stale[-1],),
                        {"case": "position fen 6k1/5ppp/8/8/8/8/5PPP/R5K1 w - - 0 1 | go wtime 350 btime 350", "lines": [x for x in stale if x][-4:]})
        hist_add(o, "tiny-slice mate-in-one searches with the mate announced", nconc)
    finally:
        eng.close()
    for start, moves in games:
        eng = blackbox.Engine(V.BINARY)
        try:
            eng.handshake()
            for kk in range(2, len(moves), 2):
                eng.send(pos_cmd(start, moves[:kk]))
                eng.send("go wtime 130 btime 130 movestogo 1")
                eng.read_until(lambda l: l.startswith("bestmove"), 8)
            cmd = pos_cmd(start, moves)
            eng.send(cmd)
            eng.send("go wtime 475 btime 475 movestogo 1")          # 300 ms: iterations 1 and 2 finish
            lines = eng.read_until(lambda l: l.startswith("bestmove"), 10)
            o.evaluations += 1
            if lines[-1] is None:
                ok = False
                o.violation("input", "no answer in a GUI-style session: %s" % cmd, {"case": cmd})
                continue
            mv = lines[-1].split(" ")[1]
            fen = proj_to_fen(legal_after([cmd])[0])
            lm = sorted(root_legal_moves([fen])[0])
            sep = " " if " moves " in cmd else " moves "
            q = ["mate\t%s\t1" % cmd] + ["mate\t%s%s%s\t1" % (cmd, sep, m) for m in lm]
            ans = [l[2:] for l in V.run_sharded([V.DRIVER, V.ZDUMP], q) if l.startswith("S ")]
            f0 = dict(kv.split("=") for kv in ans[0].split(" ")[1:] if "=" in kv)
            child = {m: dict(kv.split("=") for kv in a.split(" ")[1:] if "=" in kv) for m, a in zip(lm, ans[1:])}
            if f0.get("in") == "1":
                if child.get(mv, {}).get("checkmate") != "1":
                    ok = False
                    o.violation("input", "mate in one available but %s played: %s" % (mv, cmd), {"case": cmd, "lines": lines[-4:]})
            elif any(c.get("in") != "1" for c in child.values()) and child.get(mv, {}).get("in") == "1":
                ok = False
                o.violation("input", "the engine plays %s into a mate in one it could avoid: %s" % (mv, cmd), {"case": cmd, "lines": lines[-4:]})
        finally:
            eng.close()
    return ok


# ---------------------------------------------------------------- C09
def exact_slice_bounds(clock, inc, mtg):
    """the bounds C09 states, in exact rational arithmetic"""
    from fractions import Fraction
    return clock, inc, mtg


@prop("C09", "C09.v", THEOREMS["C09"], axioms=FLOCQ_AXIOMS, binary=True)
def run_c09(o, tier, rng, prep):
    from fractions import Fraction
    grid = [-2 ** 127, -2 ** 64, -1000, -1, 0, 1, 50, 99, 100, 101, 102, 103, 104, 150, 1000, 59999, 300000,
            2 ** 31, 2 ** 53 - 1, 2 ** 53, 2 ** 53 + 1, 2 ** 64 + 12345, 2 ** 100 + 7, 2 ** 126 + 12345, 2 ** 127 - 1]
    incs = [-2 ** 127, -5, 0, 1, 7, 100, 10000, 2 ** 70, 2 ** 127 - 1]
    mtgs = [None, 0, 1, 2, 30, 40, 2 ** 32 - 1]      # 0: sent by some GUIs for sudden death; only the unconditional clauses are judged for it
    combos = []
    for c in grid:
        for i in incs:
            for m in mtgs:
                combos.append((c, i, m))
    n_rand = 300 if tier == "quick" else 20000
    for _ in range(n_rand):
        e = rng.choice([8, 16, 31, 53, 54, 64, 100, 126])
        c = rng.randrange(-2 ** 10, 2 ** e)
        i = rng.choice([0, 0, rng.randrange(-100, 2 ** rng.choice([8, 20, 60]))])
        m = rng.choice([None, None, 0, rng.randrange(1, 2 ** rng.choice([3, 6, 16, 32]))])
        combos.append((c, i, m))
    if tier == "quick":
        rng.shuffle(combos)
        combos = combos[:1500]
    cases = []
    meta = []
    for c, i, m in combos:
        for side in "wb":
            oc, oi = rng.choice(grid), rng.choice(incs)      # the other side's fields: must not matter
            if side == "w":
                toks = ["go", "wtime", str(c), "btime", str(oc), "winc", str(i), "binc", str(oi)]
            else:
                toks = ["go", "btime", str(c), "wtime", str(oc), "binc", str(i), "winc", str(oi)]
            if m is not None:
                toks += ["movestogo", str(m)]
            if rng.random() < 0.2:
                toks.insert(rng.randrange(1, len(toks) + 1, 2), "ponder")   # an unknown token at a non-value position
            cases.append("slice\t%s\t%s" % (" ".join(toks), side))
            meta.append((c, i, m, side))
    res = V.run_cases(cases)
    mm, _ = V.compare(res, use_spec=False)
    report(o, "time slice and go parsing (exact integers) on clock grids", res, mm, [], nontrivial=lambda r: not (r.get("I") or "").endswith("slice=0"))
    ok = True
    own = {}
    for (c, i, m, side), r in zip(meta, res):
        mt = re.search(r"wtime=(-?\d+) btime=(-?\d+) winc=(-?\d+) binc=(-?\d+) mtg=(\S+) slice=(\d+)", r.get("I") or "")
        if not mt:
            ok = False
            o.violation("input", "go parsing/slice failed: %s -> %s" % (r["case"], r.get("I")), {"case": r["case"], "impl": r.get("I")})
            continue
        wt, bt, wi, bi = [int(mt.group(k)) for k in range(1, 5)]
        sl = int(mt.group(6))
        parsed = (wt, wi) if side == "w" else (bt, bi)
        if parsed != (c, i) or (mt.group(5) != ("-" if m is None else str(m))):
            ok = False
            o.violation("input", "go fields parsed wrongly: %s -> %s" % (r["case"], r.get("I")), {"case": r["case"], "impl": r.get("I")})
        key = (c, i, m)
        if key in own and own[key] != sl:
            ok = False
            o.violation("input", "slice depends on more than the mover's clock/increment/movestogo: %s gives %d, elsewhere %d" % (r["case"], sl, own[key]), {"case": r["case"]})
        own[key] = sl
        mm_ = 30 if m is None else m
        if sl > max(c, 0):
            ok = False
            o.violation("input", "planned time %d exceeds the mover's clock %d: %s" % (sl, c, r["case"]), {"case": r["case"], "slice": sl, "clock": c})
        if c > 100 and m != 0:
            ideal = Fraction(8, 10) * (c - 100) / mm_
            # whole milliseconds (+1/2) and four binary64 roundings (relative 2^-50 is generous)
            if Fraction(sl) > ideal + Fraction(1, 2) + ideal / 2 ** 50 + Fraction(c, 2 ** 50) or Fraction(sl) < ideal - Fraction(1, 2) - ideal / 2 ** 50 - Fraction(c, 2 ** 50):
                ok = False
                o.violation("input", "planned time %d is not 80%% of (clock-100)/movestogo = %s: %s" % (sl, float(ideal), r["case"]), {"case": r["case"], "slice": sl})
        if c <= 100 and i <= 0 and sl != 0:
            ok = False
            o.violation("input", "no usable clock and no increment but %d ms planned: %s" % (sl, r["case"]), {"case": r["case"], "slice": sl})
    o.oblige("bounds of C09 on the implementation's slices (exact rational arithmetic)", ok)
    # measured delay on the real binary
    bb = blackbox_searches(o, tier, rng, slices=(40, 120, 250) if tier == "quick" else (1, 40, 120, 250, 600), n=6 if tier == "quick" else 30)
    okd = True
    for i, (case, fen, legal, lines, dt) in enumerate(bb):
        m = re.search(r"go wtime (\d+) btime (\d+) movestogo 1", case)
        clock = int(m.group(1)) if fen.split(" ")[1] == "w" else int(m.group(2))
        plan = round(0.8 * (clock - 100))
        if lines[-1] is None or dt * 1000 > plan + 1500 or dt * 1000 < plan - 10:
            okd = False
            o.violation("input", "go answered after %.0f ms, plan was %d ms: %s" % (dt * 1000, plan, case), {"case": case, "ms": dt * 1000, "plan": plan})
    o.oblige("measured go->bestmove delay equals the plan up to overhead (%d timed searches on the real binary)" % len(bb), okd)
    # small plans: the overhead allowance above would hide a floor of tens of milliseconds, so here the *minimum* delay over
    # several tries is taken (scheduling noise only ever adds) and must be within 30 ms of the plan
    import blackbox
    oks = True
    small = [("position startpos moves e2e4", "go wtime 60000 btime 30", 0), ("position startpos", "go wtime 5 btime 60000", 0),
             ("position startpos", "go", 0), ("position startpos", "go wtime 400 btime 400", 8),
             ("position startpos moves e2e4", "go wtime 99999 btime 130 movestogo 1", 24), ("position startpos", "go wtime 100 btime 100 winc 20 binc 900", 16)]
    eng = blackbox.Engine(V.BINARY)
    try:
        eng.handshake()
        for cmd, go, plan in small:
            best = None
            for _ in range(7):
                eng.send(cmd)
                t0 = time.time()
                eng.send(go)
                ls = eng.read_until(lambda l: l.startswith("bestmove"), timeout=5)
                dt = (time.time() - t0) * 1000
                o.evaluations += 1
                if ls[-1] is not None:
                    best = dt if best is None else min(best, dt)
            if best is None or best > plan + 30 or best < plan - 2:
                oks = False
                o.violation("input", "plan %d ms, but the quickest of 7 answers took %s ms: %s | %s" % (plan, "no answer" if best is None else "%.1f" % best, cmd, go),
                            {"case": "%s | %s" % (cmd, go), "plan": plan, "min_ms": best})
            hist_add(o, "small plans timed (min of 7)")
    finally:
        eng.close()
    o.oblige("small plans (0-24 ms): the quickest of 7 answers is within 30 ms of the plan", oks)
    o.rule = "clock x increment x movestogo grid {-2^127..2^127-1 incl. 99..104, 2^53+-1} x {absent,0,1,2,30,40,2^32-1} x both colours plus random values, other side's fields randomised, an unknown token inserted in 20% of the commands; non-trivial = non-zero slice"
    o.assumptions.append("IEEE-754 binary64 conformance of the CPU for - * / and of the i128->f64 conversion")
    o.trusted.append("Flocq 4.1.0 (BinarySingleNaN) as the model of binary64 arithmetic")


# ================================================================= session properties (real binary)
WS = [0x9, 0xa, 0xb, 0xc, 0xd, 0x20, 0x85, 0xa0, 0x1680] + list(range(0x2000, 0x200b)) + [0x2028, 0x2029, 0x202f, 0x205f, 0x3000]
# option settings for options the engine does not have, in every shape a GUI may send: all are ignored
SETOPTIONS = ["setoption name DebugLogLevel value Info", "setoption name DebugLogLevel value None", "setoption", "setoption name", "setoption name Ponder", "setoption name Clear Hash", "setoption name Ponder true",
              "setoption name Hash value 128", "setoption name DebugLogLevel value", "setoption name Clear Hash value",
              "setoption name UCI_AnalyseMode value true", "setoption name Nalimov Path value c:\\chess\\tb 4;d:\\tb5",
              "setoption value 3", "setoption name Threads value 4 extra"]

GARBAGE = ["", " ", "   ", "\t", "xyzzy", "isreadyy", "go2", "Position startpos", "żółć", "∀x", "  ", "stop", "ponderhit",
           "debug on", "register later", "uci2", "0000", "quit now"[:4] + "x", "readyok", "bestmove e2e4", " isready"]


def spec_words(s):
    """tokens of a line: maximal runs of non-White_Space characters"""
    out = []
    cur = ""
    for ch in s:
        if ord(ch) in WS:
            if cur:
                out.append(cur)
            cur = ""
        else:
            cur += ch
    if cur:
        out.append(cur)
    return out


def legal_after(cmd_moves):
    """for a list of position commands return the set of legal moves of each resulting position (specification)"""
    res = V.run_sharded([V.DRIVER, V.ZDUMP], ["pos\t" + c for c in cmd_moves])
    projs = [l[2:] for l in res if l.startswith("S ")]
    return projs


def proj_to_fen(p):
    """'pos Ok <pl64>/<stm>/<rights>/<ep>#key counts=..' -> FEN"""
    body = p.split(" ")[2].split("#")[0]
    pl, stm, rights, ep = body.split("/")
    rows = []
    for r in range(7, -1, -1):
        row = pl[8 * r:8 * r + 8]
        out = ""
        run = 0
        for ch in row:
            if ch == ".":
                run += 1
            else:
                if run:
                    out += str(run)
                    run = 0
                out += ch
        if run:
            out += str(run)
        rows.append(out)
    rs = "".join(c for c, b in zip("KQkq", rights) if b == "1") or "-"
    e = "-"
    if ep != "-":
        f, r = ep.split(",")
        e = "abcdefgh"[int(f)] + str(int(r) + 1)
    return "%s %s %s %s 0 1" % ("/".join(rows), stm, rs, e)


def judge_bestmove(o, case, line, legal_set, terminal):
    m = re.match(r"^bestmove (\S+)$", line or "")
    if not m:
        o.violation("input", "no well-formed bestmove line (%r): %s" % (line, case), {"case": case, "line": line})
        return False
    mv = m.group(1)
    if terminal:
        if mv not in ("0000", "(none)"):
            o.violation("input", "terminal position answered with %s instead of a null move: %s" % (mv, case), {"case": case, "line": line})
            return False
        return True
    if mv not in legal_set:
        o.violation("input", "bestmove %s is not a legal move in UCI notation (legal: %s): %s" % (mv, ",".join(sorted(legal_set)), case), {"case": case, "line": line, "legal": sorted(legal_set)})
        return False
    return True


def go_shapes(stm):
    """every shape of clock information the check knows about, for the side to move `stm`"""
    me, other = ("w", "b") if stm == "w" else ("b", "w")
    return go_variants(None, stm, every=True) + [
        "go %stime -50 %stime 1000 %sinc 100 %sinc 100" % (me, other, me, other),
        "go %stime -1 %stime 1000 %sinc 2000 %sinc 2000" % (me, other, me, other),
        "go %stime -170141183460469231731687303715884105728 %sinc 1" % (me, me),
        "go %stime 100 %sinc 1" % (me, me),
        "go %stime 101 %stime -5" % (me, other),
        "go %sinc 50" % me,
        "go movestogo 0 %stime 5000" % me,
    ]


def go_variants(rng, stm, every=False):
    me, other = ("w", "b") if stm == "w" else ("b", "w")
    v = [
        "go",
        "go %stime 0 %stime 0" % (me, other),
        "go %stime -500 %stime 1000" % (me, other),
        "go %stime 150 %stime 150" % (me, other),
        "go %stime 200 %stime 200 movestogo 1" % (me, other),
        "go %stime 50 %sinc 100 %stime 99999" % (me, me, other),
        "go %stime 400 %stime 400 %sinc 5 %sinc 5 movestogo 2" % (me, other, me, other),
        "go infinite_but_unknown %stime 130" % me,
        "go movestogo 4294967295 %stime 100000" % me,
    ]
    if every:
        return v
    return rng.choice(v)


def session_positions(rng, n, include_terminal=False):
    starts = gens.corpus_fens()
    games = gens.playouts(rng, starts, n, 40)
    out = []
    for g in games:
        ks = list(range(len(g.fens)))
        k = rng.choice(ks)
        if include_terminal and "terminal" in g.tags[-1] and rng.random() < 0.7:
            k = len(g.fens) - 1
        out.append((g.start, g.moves[:k], g.fens[k], "terminal" in g.tags[k]))
    return out


TERMINAL_SESSIONS = [
    ("position startpos moves f2f3 e7e5 g2g4 d8h4", True),                       # fool's mate: white is mated
    ("position fen 7k/5K2/6Q1/8/8/8/8/8 b - - 0 1", True),                      # stalemate
    ("position fen 8/8/8/8/8/6k1/6p1/6K1 w - - 0 1", True),                     # stalemate
    ("position fen R5k1/5ppp/8/8/8/8/8/6K1 b - - 0 1", True),                   # back-rank mate
    ("position startpos moves e2e4 e7e5 f1c4 b8c6 d1h5 g8f6 h5f7", True),       # scholar's mate
]


STALE_EP_SESSIONS = [
    # a double step that is not answered by the en-passant capture, then quiet moves: the target must be gone
    "position fen n5bk/3p3p/4p3/4P3/8/8/1B6/6K1 b - - 0 1 moves d7d5 g1f1 a8b6",
    "position startpos moves e2e4 g8f6 e4e5 d7d5 b1c3 f6g8",
    "position startpos moves e2e4 g8f6 e4e5 d7d5 b1c3 f6g8 g1f3 b8c6",
    "position fen 4k3/8/8/8/3p4/8/4P3/4K3 w - - 0 1 moves e2e4 e8d8 e1d1",
    "position fen 4k3/8/8/8/3p4/8/4P3/4K3 w - - 0 1 moves e2e4 e8d8 e1d1 d8e8",
    "position fen 1n2k3/3p4/8/4P3/8/8/8/1N2K3 b - - 0 1 moves d7d5 b1c3 b8c6",
]


def forced_root_sweep(o, kmax=40):
    """in-process searches (virtual clock, expiry index 0..kmax) on roots with exactly one legal move and a few
    ordinary ones: whatever the expiry point, exactly the moves of the root may be handed back and at least one is"""
    fens = FORCED_MOVE_FENS + ["8/8/4k3/8/8/3PK3/8/8 w - - 0 1", "5rk1/5ppp/8/8/8/8/r7/K6R w - - 0 1"]
    legal = root_legal_moves(fens)
    cases, index = [], []
    for fi, f in enumerate(fens):
        for k in range(kmax + 1):
            cases.append("search\tposition fen %s\t%d" % (f, k))
            index.append(fi)
    res = impl_only(cases)
    ok = True
    for fi, r in zip(index, res):
        d = parse_search(r.get("I"))
        o.evaluations += 1
        if d.get("bad") or d.get("panic"):
            ok = False
            o.violation("input", "search did not complete normally: %s -> %s" % (r["case"], (r.get("I") or "")[:160]), {"case": r["case"], "impl": r.get("I")})
            continue
        sends = [x.split("#")[0] for x in d["sends"]]
        if not sends or any(x not in legal[fi] for x in sends):
            ok = False
            o.violation("input", "search hands back %s, legal root moves are %s: %s" % (sends or "nothing", sorted(legal[fi]), r["case"]),
                        {"case": r["case"], "sends": sends, "legal": sorted(legal[fi])})
    hist_add(o, "in-process searches on forced-move roots x expiry index", len(res))
    return ok


@prop("C03", "C03.v", THEOREMS["C03"], binary=True)
def run_c03(o, tier, rng, prep):
    import blackbox
    n = 30 if tier == "quick" else 400
    pos = [p for p in session_positions(rng, n * 2) if not p[3]][:n]
    legal = root_legal_moves([p[2] for p in pos])
    eng = blackbox.Engine(V.BINARY)
    ok = True
    chains = 0
    try:
        eng.handshake()
        for i, (start, moves, fen, _) in enumerate(pos):
            cmd = pos_cmd(start, moves)
            eng.send(cmd)
            stm = fen.split(" ")[1]
            cur_cmd = cmd
            cur_legal = legal[i]
            # a chain of go commands without a new position: each answer must be legal in the
            # position reached by playing the previous answers
            for step in range(rng.choice([1, 1, 2, 3])):
                go = go_variants(rng, stm)
                eng.send(go)
                lines = eng.read_until(lambda l: l.startswith("bestmove"), timeout=15)
                o.evaluations += 1
                case = "%s | %s (go #%d)" % (cmd, go, step + 1)
                nb = sum(1 for l in lines if l and l.startswith("bestmove"))
                if lines[-1] is None or nb != 1:
                    ok = False
                    o.violation("input", "go produced %d bestmove lines: %s" % (nb, case), {"case": case, "lines": lines})
                    break
                if not cur_legal:
                    break
                if not judge_bestmove(o, case, lines[-1], cur_legal, False):
                    ok = False
                    break
                mv = lines[-1].split(" ")[1]
                sep = " " if " moves " in cur_cmd else " moves "
                cur_cmd = cur_cmd + sep + mv
                nxt = legal_after([cur_cmd])
                nfen = proj_to_fen(nxt[0])
                cur_legal = root_legal_moves([nfen])[0]
                stm = "b" if stm == "w" else "w"
                chains += 1
                if len(o.samples) < 6:
                    o.samples.append(case + " -> " + lines[-1])
            # exactly one: nothing else may follow
            extra = eng.read_line(0.03)
            if extra is not None and extra.startswith("bestmove"):
                ok = False
                o.violation("input", "a second bestmove line followed: %s" % cmd, {"case": cmd, "line": extra})
        alive = eng.isready()
        if not alive:
            ok = False
            o.violation("input", "engine does not answer isready after the session", {"stderr": eng.stderr_text()})
    finally:
        eng.close()
    # every shape of clock information once, for both colours (negative clocks with an increment, the extreme clock, a bare
    # increment, movestogo 0, ...): each go is answered by one legal move and the engine is still there afterwards
    for stm, cmd in (("w", "position startpos"), ("b", "position startpos moves e2e4")):
        lm = root_legal_moves([proj_to_fen(legal_after([cmd])[0])])[0]
        eng = blackbox.Engine(V.BINARY)
        try:
            eng.handshake()
            for go in go_shapes(stm):
                eng.send(cmd)
                eng.send(go)
                lines = eng.read_until(lambda l: l.startswith("bestmove"), timeout=15)
                o.evaluations += 1
                case = "%s | %s" % (cmd, go)
                if lines[-1] is None or not judge_bestmove(o, case, lines[-1], lm, False) or not eng.isready(3):
                    ok = False
                    if lines[-1] is None:
                        o.violation("input", "go not answered: %s" % case, {"case": case, "stderr": eng.stderr_text()[-300:]})
                    eng.close()
                    eng = blackbox.Engine(V.BINARY)
                    eng.handshake()
                hist_add(o, "go shapes")
        finally:
            eng.close()
    o.distinct += chains
    o.oblige("exactly one legal, well-formed bestmove per go, along go chains, on the real binary (%d go commands)" % o.evaluations, ok)
    ok3 = corner_capture_sessions(o, tier, rng)
    o.oblige("go after a move list that captures an unmoved rook on its corner (castling rights of the text applier)", ok3)
    # what the search can choose from after a position command is exactly the legal moves of the position the
    # command describes (a stale en-passant target or castling right left by the text applier shows up here)
    rcases = ["roots\t" + pos_cmd(st_, mv_) for st_, mv_, _, _ in pos] + ["roots\t" + c for c in STALE_EP_SESSIONS]
    kg = [f for f, _, _ in gens.filter_legal(gens.king_guarded_piece_positions())]
    rcases += ["roots\tposition fen " + f for f in kg]
    hist_add(o, "batch:piece next to the king guarded only by the enemy king (every side)", len(kg))
    rres = V.run_cases(rcases)
    rmm, rsm = V.compare(rres)
    o.evaluations += len(rres)
    for r in rsm[:3]:
        o.violation("input", "after `%s` the engine chooses from %s, the legal moves are %s" % (r["case"].split("\t")[1][:200], (r.get("P") or "")[6:], (r.get("S") or "")[6:]),
                    {"case": r["case"], "impl": r.get("P"), "spec": r.get("S")})
    for r in rmm[:2]:
        if not rsm:
            o.violation("corr", "root moves after a position command: model and implementation differ on %s" % r["case"][:200], {"correspondence": "roots", "case": r["case"], "impl": r.get("I"), "model": r.get("M")})
    o.oblige("after every position command the search chooses among exactly the legal moves (%d commands)" % len(rres), not rsm and not rmm)
    okf = forced_root_sweep(o)
    o.oblige("a move of the root is handed back for every expiry index, also when the root has exactly one legal move", okf)
    ok2 = go_chain_corpus(o, tier, rng)
    o.oblige("go chains through promotion, castling and en passant (fields inherited from the previous answer)", ok2)
    session_model_corr(o, tier, rng)
    o.rule = "sessions on the real binary: positions set by startpos/FEN plus legal move lists from specification-generated games, go with clocks from {none, zero, negative, tiny, increment only, movestogo 1..2^32-1, unknown tokens}, chains of 1-3 go commands without a new position; each bestmove judged by the specification's legal move list of the position reached; non-trivial = one judged answer"
    o.assumptions.append("thread interleavings are sampled on the real binary; the model proves the protocol logic for every (expiry index, pick) schedule")


GO_CHAIN_FENS = [
    # the first answer is (almost certainly) a promotion, the reply castling: the answer's text must not inherit a letter
    "2b1k2r/P3pppp/8/8/8/8/8/4K3 w k - 0 1",
    "r3k1b1/pppp3P/8/8/8/8/8/4K3 w q - 0 1",
    "4k3/8/8/8/8/8/p3PPPP/2B1K2R b K - 0 1",
    "4k3/8/8/8/8/8/PPPP3p/R3K1B1 b Q - 0 1",
    "r3k2r/P6P/8/8/8/8/8/4K3 w kq - 0 1",
    # the best move is a knight promotion that mates: the letter printed must be the piece put on the board (the
    # next go, on the engine's own board, must be answered as the position after the *printed* move demands)
    "k7/8/8/8/8/7P/5pPK/6BR b - - 0 1",
    "6br/5Ppk/7p/8/8/8/8/K7 w - - 0 1",
    # the first answer (no clock: the top-ordered move, the only capture) takes a rook on its home corner from another
    # corner; the victim's castling right must be gone on the engine's own board when the next go arrives
    "r3kb1r/p1ppqppp/1p3n2/8/8/6P1/PPPPPP1P/RNBQ1RKB w kq - 0 1",
    "rnbq1rkb/pppppp1p/6p1/8/8/1P3N2/P1PPQPPP/R3KB1R b KQ - 0 1",
    # double step then en passant by the engine itself
    "4k3/8/8/8/1p6/8/P7/4K3 w - - 0 1",
    "4k3/p7/8/1P6/8/8/8/4K3 b - - 0 1",
]


def corner_capture_sessions(o, tier, rng):
    """position ... moves <capture of a rook on its home corner>, then go: the answer must be legal
    (a stale castling right in the text applier shows up as castling without a rook)"""
    import blackbox
    cc = gens.corner_capture_chains(rng)
    legal = set(f for f, _, _ in gens.filter_legal([f for f, _ in cc]))
    cc = [(f, ch) for f, ch in cc if f in legal]
    # plus a hand-made position in which castling is the natural reply
    cc.append(("r3kbnr/p1pppppp/8/8/8/6P1/PPPPPPBP/RNBQK1NR w KQkq - 0 1", ["g2a8"]))
    cc.append(("rnbqk1nr/ppppppbp/6p1/8/8/8/P1PPPPPP/R3KBNR b KQkq - 0 1", ["g7a1"]))
    rng.shuffle(cc)
    cc = cc[: (40 if tier == "quick" else 400)] + cc[-2:]
    ok = True
    eng = blackbox.Engine(V.BINARY)
    try:
        eng.handshake()
        for fen, chain in cc:
            cmd = "position fen %s moves %s" % (fen, " ".join(chain))
            after = legal_after([cmd])
            if not after or not after[0].startswith("pos Ok"):
                continue
            lm = root_legal_moves([proj_to_fen(after[0])])[0]
            if not lm:
                continue
            for go in ("go", "go wtime 150 btime 150 movestogo 1"):
                eng.send(cmd)
                eng.send(go)
                lines = eng.read_until(lambda l: l.startswith("bestmove"), timeout=10)
                o.evaluations += 1
                if lines[-1] is None or not judge_bestmove(o, "%s | %s" % (cmd, go), lines[-1], lm, False):
                    ok = False
                hist_add(o, "corner-capture sessions judged")
    finally:
        eng.close()
    return ok


def go_chain_corpus(o, tier, rng):
    import blackbox
    ok = True
    legal0 = gens.filter_legal(GO_CHAIN_FENS)
    for fen, n, _ in legal0:
        for go in ("go", "go wtime 160 btime 160 movestogo 1"):
            eng = blackbox.Engine(V.BINARY)
            try:
                eng.handshake()
                cmd = "position fen " + fen
                eng.send(cmd)
                cur_cmd = cmd
                cur_legal = root_legal_moves([fen])[0]
                for step in range(3):
                    if not cur_legal:
                        break
                    eng.send(go)
                    lines = eng.read_until(lambda l: l.startswith("bestmove"), timeout=10)
                    o.evaluations += 1
                    case = "%s | %s (go #%d of a chain)" % (cmd, go, step + 1)
                    if lines[-1] is None or not judge_bestmove(o, case, lines[-1], cur_legal, False):
                        ok = False
                        break
                    mv = lines[-1].split(" ")[1]
                    sep = " " if " moves " in cur_cmd else " moves "
                    cur_cmd = cur_cmd + sep + mv
                    cur_legal = root_legal_moves([proj_to_fen(legal_after([cur_cmd])[0])])[0]
                    hist_add(o, "go-chain answers judged")
            finally:
                eng.close()
    return ok


HEAVY_FENS = [
    "1q2k1q1/qq3qqq/8/8/8/8/QQ3QQQ/1Q2K1Q1 w - - 0 1",      # long capture sequences under the first root move
    "r3k2r/p1ppqpb1/bn2pnp1/3PN3/1p2P3/2N2Q1p/PPPBBPPP/R3K2R w KQkq - 0 1",
    "r4rk1/1pp1qppp/p1np1n2/2b1p1B1/2B1P1b1/P1NP1N2/1PP1QPPP/R4RK1 w - - 0 10",
]


STALEMATE_IN_TREE_FENS = [
    "7k/5Q2/8/8/8/8/8/K7 w - - 0 1",        # any quiet king move stalemates Black
    "5k2/5P2/4K3/8/8/8/8/8 w - - 0 1",      # Kf6 stalemates, Kd7/Ke5.. do not
    "k7/2K5/8/1Q6/8/8/8/8 w - - 0 1",       # Qb6 stalemates, Qb7 mates
]


def session_model_corr(o, tier, rng):
    """the session model's go step against the real search: the answer is one of the sends (in-process, virtual clock);
    the polling loop of a go ends iff something was sent, so every non-terminal root must yield a send for every expiry index"""
    pos = small_positions(rng, 20, max_pieces=8)[: (8 if tier == "quick" else 60)]
    cases = []
    for start, moves, fen in pos:
        for k in (0, 1, 2, 3, 5, 40):
            cases.append("search\t%s\t%d" % (pos_cmd(start, moves), k))
    for fen in HEAVY_FENS[1:]:          # (the sixteen-queen position is replayed on the binary only: its quiescence is too large for the model)
        for k in range(0, 6):
            cases.append("search\tposition fen %s\t%d" % (fen, k))
    # stalemates and mates inside the horizon (the harness is built with overflow checks: a count that goes below 0 panics here)
    for fen in STALEMATE_IN_TREE_FENS:
        for k in (40, 400, 2500):
            cases.append("search\tposition fen %s\t%d" % (fen, k))
    res = V.run_cases(cases)
    mm, _ = V.compare(res, use_spec=False)
    o.evaluations += len(res)
    o.traces += len(res)
    o.oblige("search model = implementation on the go step's searches (%d runs)" % len(res), not mm)
    for r in mm[:2]:
        o.violation("corr", "search correspondence broken on %s: %s" % (r["case"][:160], V.first_diff(r.get("I"), r.get("M"))),
                    {"correspondence": "search", "case": r["case"], "impl": r.get("I"), "model": r.get("M")})
    oks = True
    for r in res:
        d = parse_search(r.get("I"))
        if d.get("bad") or d.get("panic") or not d.get("sends"):
            oks = False
            o.violation("input", "the search hands nothing back, so this go would never be answered: %s -> %s" % (r["case"], (r.get("I") or "")[:120]),
                        {"case": r["case"], "impl": r.get("I")})
    o.oblige("every go-step search hands a move back (the polling loop ends iff something was sent)", oks)


def deep_search_hunt(o):
    """a proof or the correspondence broke and no failing input is known yet: let sparse endgames search for seconds
    (iterations far beyond the usual depth; table bounds, ply arithmetic) and require the answer and readyok"""
    import blackbox
    for fen in ("7k/8/8/8/8/8/8/K7 w - - 0 1", "8/8/4k3/8/8/3PK3/8/8 w - - 0 1", "8/8/8/3k4/8/3K4/8/8 b - - 0 1"):
        eng = blackbox.Engine(V.BINARY)
        try:
            eng.handshake()
            eng.send("position fen " + fen)
            eng.send("go wtime 150100 btime 150100")
            ls = eng.read_until(lambda l: l.startswith("bestmove"), 10)
            o.evaluations += 1
            case = "position fen %s | go wtime 150100 btime 150100 (slice 4000 ms)" % fen
            if ls[-1] is None or not eng.isready(3):
                o.violation("input", "no bestmove/readyok after a 4 s search of a sparse endgame: %s" % case, {"case": case, "stderr": eng.stderr_text()[-400:]})
                return False
        finally:
            eng.close()
    hist_add(o, "hunt: 4 s searches of sparse endgames")
    return True


def liveness_hunt(o, rounds=200):
    """the harness or the model no longer builds against /repo/src, so nothing can be run in-process: look for a failing
    input on the binary alone - a storm of searches of a few milliseconds, each of which must be answered, isready in between"""
    import blackbox
    storm = ["position startpos", "position startpos moves e2e4 e7e5", "position startpos moves d2d4 d7d5 c2c4",
             "position fen r1bqkbnr/pppp1ppp/2n5/4p3/4P3/5N2/PPPP1PPP/RNBQKB1R w KQkq - 2 3"]
    if not os.path.exists(V.BINARY):
        return
    eng = blackbox.Engine(V.BINARY)
    try:
        eng.handshake()
        for j in range(rounds):
            cmd = storm[j % len(storm)]
            clock = 101 + (j * 7) % 10
            go = "go wtime %d btime %d movestogo 1" % (clock, clock)
            eng.send(cmd)
            eng.send(go)
            lines = eng.read_until(lambda l: l.startswith("bestmove"), timeout=5)
            o.evaluations += 1
            if lines[-1] is None or (j % 20 == 19 and not eng.isready(3)):
                o.violation("input", "no bestmove/readyok within 5 s in a storm of 1-8 ms searches (round %d): %s | %s" % (j + 1, cmd, go),
                            {"case": "%s | %s" % (cmd, go), "round": j + 1, "stderr": eng.stderr_text()[-300:]})
                return
        hist_add(o, "hunt on the binary alone: storm of 1-8 ms searches")
    finally:
        eng.close()


@prop("C08", "C08.v", THEOREMS["C08"], binary=True)
def run_c08(o, tier, rng, prep):
    import blackbox
    if any(v[0] in ("proof", "tie") for v in o.violations):
        deep_search_hunt(o)
    n = 16 if tier == "quick" else 200
    pos = session_positions(rng, n, include_terminal=True)
    sessions = [(c, True, None) for c, _ in TERMINAL_SESSIONS]
    for start, moves, fen, term in pos:
        sessions.append((pos_cmd(start, moves), term, fen))
    legal = root_legal_moves([s[2] for s in sessions if s[2]])
    li = 0
    eng = blackbox.Engine(V.BINARY)
    ok = True
    try:
        eng.handshake()
        for cmd, term, fen in sessions:
            lm = None
            if fen:
                lm = legal[li]
                li += 1
            sl = rng.choice([20, 60, 150])
            clock = int(sl / 0.8) + 100
            go = "go wtime %d btime %d movestogo 1" % (clock, clock)
            eng.send(cmd)
            t0 = time.time()
            eng.send(go)
            lines = eng.read_until(lambda l: l.startswith("bestmove"), timeout=sl / 1000.0 + 5)
            dt = (time.time() - t0) * 1000
            o.evaluations += 1
            case = "%s | %s" % (cmd, go)
            hist_add(o, "terminal" if term else "non-terminal")
            if lines[-1] is None:
                ok = False
                o.violation("input", "no bestmove within %d ms + 5 s: %s" % (sl, case), {"case": case, "lines": lines[-5:]})
                eng.close()
                eng = blackbox.Engine(V.BINARY)
                eng.handshake()
                continue
            if dt > sl + 1500:
                ok = False
                o.violation("input", "bestmove after %.0f ms, slice %d ms: %s" % (dt, sl, case), {"case": case, "ms": dt})
            if lm is not None or term:
                ok = judge_bestmove(o, case, lines[-1], lm or set(), term) and ok
            if o.evaluations % 2 == 0:
                eng.send("")                    # a blank line between the answer and the next command changes nothing
                eng.send("   ")
            if not eng.isready(3):
                ok = False
                o.violation("input", "no readyok after the answer: %s" % case, {"case": case, "stderr": eng.stderr_text()})
                eng.close()
                eng = blackbox.Engine(V.BINARY)
                eng.handshake()
            if len(o.samples) < 8:
                o.samples.append(case + " -> " + str(lines[-1]))
        # further commands are still served correctly: a fresh search on the start position
        eng.send("position startpos")
        eng.send("go wtime 200 btime 200 movestogo 1")
        lines = eng.read_until(lambda l: l.startswith("bestmove"), timeout=6)
        if lines[-1] is None:
            ok = False
            o.violation("input", "engine no longer serves go after the session", {"lines": lines[-5:]})
    finally:
        eng.close()
    okf = forced_root_sweep(o)
    o.oblige("the search hands a move back for every expiry index, also when the root has exactly one legal move (so the go is answered)", okf)
    session_model_corr(o, tier, rng)
    # tiny slices on positions whose first root move opens a long quiescence tree
    eng = blackbox.Engine(V.BINARY)
    try:
        eng.handshake()
        for fen in HEAVY_FENS + CAPTURE_HEAVY_FENS:
            for clock in (101, 102, 110, 125, 140, 163, 400, 725):
                eng.send("position fen " + fen)
                t0 = time.time()
                eng.send("go wtime %d btime %d movestogo 1" % (clock, clock))
                lines = eng.read_until(lambda l: l.startswith("bestmove"), timeout=6)
                dt = (time.time() - t0) * 1000
                o.evaluations += 1
                if lines[-1] is not None and dt > 0.8 * (clock - 100) + 1500:
                    ok = False
                    o.violation("input", "bestmove after %.0f ms, slice %.0f ms: position fen %s | go wtime %d btime %d movestogo 1" % (dt, 0.8 * (clock - 100), fen, clock, clock),
                                {"fen": fen, "clock": clock, "ms": dt})
                if lines[-1] is None or not eng.isready(3):
                    ok = False
                    o.violation("input", "no bestmove/readyok with a tiny slice: position fen %s | go wtime %d btime %d movestogo 1" % (fen, clock, clock),
                                {"fen": fen, "clock": clock, "lines": lines[-3:]})
                    eng.close()
                    eng = blackbox.Engine(V.BINARY)
                    eng.handshake()
    finally:
        eng.close()
    # plans of exactly 0 ms (no clock told, clock at the margin, clock of the other side only): answered at once
    eng = blackbox.Engine(V.BINARY)
    try:
        eng.handshake()
        for cmd, go in (("position startpos", "go"), ("position startpos", "go wtime 100 btime 100"), ("position startpos moves e2e4", "go wtime 60000 btime 30"),
                        ("position startpos moves e2e4 e7e5", "go wtime 90 btime 60000"), ("position startpos", "go wtime 0 btime 0 winc 0 binc 0 movestogo 5")):
            eng.send(cmd)
            t0 = time.time()
            eng.send(go)
            lines = eng.read_until(lambda l: l.startswith("bestmove"), timeout=4)
            dt = (time.time() - t0) * 1000
            o.evaluations += 1
            if lines[-1] is None or dt > 1500 or not eng.isready(3):
                ok = False
                o.violation("input", "a go whose plan is 0 ms is not answered within 1.5 s: %s | %s" % (cmd, go), {"case": "%s | %s" % (cmd, go), "ms": dt})
                eng.close()
                eng = blackbox.Engine(V.BINARY)
                eng.handshake()
        hist_add(o, "plans of 0 ms")
    finally:
        eng.close()
    # a storm of searches of a few milliseconds from quiet positions: improvements arrive in quick succession right at the
    # deadline, which is where the hand-over between the two threads can block or drop
    storm = ["position startpos", "position startpos moves e2e4 e7e5", "position startpos moves d2d4 d7d5 c2c4",
             "position fen r1bqkbnr/pppp1ppp/2n5/4p3/4P3/5N2/PPPP1PPP/RNBQKB1R w KQkq - 2 3"]
    eng = blackbox.Engine(V.BINARY)
    try:
        eng.handshake()
        for j in range(120 if tier == "quick" else 1200):
            cmd = storm[j % len(storm)]
            clock = 101 + (j * 7) % 10
            go = "go wtime %d btime %d movestogo 1" % (clock, clock)
            eng.send(cmd)
            eng.send(go)
            lines = eng.read_until(lambda l: l.startswith("bestmove"), timeout=5)
            o.evaluations += 1
            if lines[-1] is None or (j % 20 == 19 and not eng.isready(3)):
                ok = False
                o.violation("input", "no bestmove/readyok within 5 s in a storm of 1-8 ms searches (round %d): %s | %s" % (j + 1, cmd, go),
                            {"case": "%s | %s" % (cmd, go), "round": j + 1, "stderr": eng.stderr_text()[-300:]})
                break
        hist_add(o, "storm of 1-8 ms searches")
    finally:
        eng.close()
    o.distinct += o.hist.get("terminal", 0) + o.hist.get("non-terminal", 0)
    o.oblige("every go answered within slice + overhead, null move on terminal positions, isready served afterwards (%d sessions on the real binary)" % len(sessions), ok)
    o.rule = "real binary: checkmate and stalemate positions (hand-built and ends of specification-generated games) and non-terminal ones, slices 20-150 ms with movestogo 1; bestmove awaited slice+5 s, isready after every answer; non-trivial = one answered go"
    o.assumptions.append("timing and thread liveness are sampled, not proved")


def repetition_reset_probes(o, tier, rng):
    """the repetition record after `position` holds the described game and nothing from earlier commands,
    observed on the real binary through the search it steers (fresh process versus used process)"""
    import blackbox

    def reply(eng, cmd, go, timeout=10):
        eng.send(cmd)
        eng.send(go)
        return eng.read_until(lambda l: l.startswith("bestmove"), timeout=timeout)

    def improvements(lines):
        out = []
        for l in lines:
            if l and l.startswith("info"):
                m = re.match(r"info pv (\S+).* depth (\d+) nodes (\d+) score (\S+ -?\d+)", l)
                if m:
                    out.append((int(m.group(2)), int(m.group(3)), m.group(4), m.group(1)))
        return out

    # the repetition record must not survive a `position` command, with or without a move list:
    # earlier traffic repeats positions that are one move away from the probed (bare) position
    rep_probes = [
        ("4k3/8/8/3q4/8/8/PPP5/2KR4 w - - 0 1", ["d1d5", "e8e7", "c1d1", "e7e8", "d1c1", "e8e7", "c1d1", "e7e8", "d1c1"]),
        ("q7/8/2k5/8/8/8/8/7K w - - 0 1", ["h1g1", "a8b8", "g1h1", "b8a8", "h1g1", "a8b8", "g1h1", "b8a8"]),
        ("6k1/8/8/8/8/8/8/K2Q4 w - - 0 1", ["d1d2", "g8h8", "d2d1", "h8g8", "d1d2", "g8h8", "d2d1", "h8g8"]),
        (gens.START, ["g1f3", "g8f6", "f3g1", "f6g8", "g1f3", "g8f6", "f3g1", "f6g8"]),
    ]
    okr = True
    for fen, shuffle in rep_probes:
        bare = "position startpos" if fen == gens.START else "position fen " + fen
        fresh = blackbox.Engine(V.BINARY)
        used = blackbox.Engine(V.BINARY)
        try:
            fresh.handshake()
            used.handshake()
            reply(used, pos_cmd(fen, shuffle), "go wtime 130 btime 130 movestogo 1")
            if rep_probes.index((fen, shuffle)) % 2 == 0:
                used.send("ucinewgame")          # with and without: neither may matter
            go = "go wtime 200 btime 200 movestogo 1"
            ia = improvements(reply(fresh, bare, go))
            ib = improvements(reply(used, bare, go))
            o.evaluations += 2
            k = min(len(ia), len(ib))
            if ia[:k] != ib[:k]:
                okr = False
                j = next((x for x in range(k) if ia[x] != ib[x]), 0)
                o.violation("input", "after a game with repetitions the reply to a bare `%s` differs from a fresh engine's at improvement %d: fresh %s, used %s" % (
                    bare, j, ia[j] if j < len(ia) else None, ib[j] if j < len(ib) else None), {"traffic": pos_cmd(fen, shuffle), "probe": bare, "fresh": ia, "used": ib})
            o.distinct += 1
        finally:
            fresh.close()
            used.close()
    # the way GUIs drive an engine: the whole game so far is resent before every go, with no ucinewgame in
    # between; the record must hold the described game once, not once per position command
    gui_games = [g for g in gens.playouts(rng, [gens.START, "r3k2r/p1ppqpb1/bn2pnp1/3PN3/1p2P3/2N2Q1p/PPPBBPPP/R3K2R w KQkq - 0 1",
                                                "4r1k1/ppp2ppp/8/8/8/8/5PPP/R5K1 w - - 0 1"], 3 if tier == "quick" else 30, 10) if len(g.moves) >= 6]
    gui_games.append(type("G", (), {"start": "4r1k1/ppp2ppp/8/8/8/8/5PPP/R5K1 w - - 0 1", "moves": ["a1a5", "g8h8", "a5a1", "h8g8"]})())
    for g in gui_games:
        fresh = blackbox.Engine(V.BINARY)
        used = blackbox.Engine(V.BINARY)
        try:
            fresh.handshake()
            used.handshake()
            for kk in range(2, len(g.moves), 2):
                reply(used, pos_cmd(g.start, g.moves[:kk]), "go wtime 120 btime 120 movestogo 1")
            final = pos_cmd(g.start, g.moves[: 2 * (len(g.moves) // 2)])
            go = "go wtime 220 btime 220 movestogo 1"
            ia = improvements(reply(fresh, final, go))
            ib = improvements(reply(used, final, go))
            o.evaluations += 2
            kq = min(len(ia), len(ib))
            if ia[:kq] != ib[:kq]:
                okr = False
                j = next((x for x in range(kq) if ia[x] != ib[x]), 0)
                o.violation("input", "after the same game was sent move by move (as GUIs do) the reply to `%s` differs from a fresh engine's at improvement %d: fresh %s, used %s" % (
                    final, j, ia[j] if j < len(ia) else None, ib[j] if j < len(ib) else None), {"probe": final, "fresh": ia, "used": ib})
            o.distinct += 1
        finally:
            fresh.close()
            used.close()
    return okr


@prop("C16", "C16.v", THEOREMS["C16"], binary=True)
def run_c16(o, tier, rng, prep):
    import blackbox
    n = 10 if tier == "quick" else 120
    probes = [p for p in session_positions(rng, n * 2) if not p[3]][:n]
    traffic_pos = session_positions(rng, 30)
    ok = True
    okt = True

    def reply(eng, cmd, go, timeout=10):
        eng.send(cmd)
        eng.send(go)
        lines = eng.read_until(lambda l: l.startswith("bestmove"), timeout=timeout)
        return lines

    def improvements(lines):
        out = []
        for l in lines:
            if l and l.startswith("info"):
                m = re.match(r"info pv (\S+).* depth (\d+) nodes (\d+) score (\S+ -?\d+)", l)
                if m:
                    out.append((int(m.group(2)), int(m.group(3)), m.group(4), m.group(1)))
        return out

    for i, (start, moves, fen, _) in enumerate(probes):
        cmd = pos_cmd(start, moves)
        fresh = blackbox.Engine(V.BINARY)
        used = blackbox.Engine(V.BINARY)
        try:
            fresh.handshake()
            used.handshake()
            # arbitrary earlier traffic on the used engine
            for _ in range(rng.choice([2, 4, 6])):
                t = rng.choice(traffic_pos)
                kind = rng.randrange(6)
                if kind == 0:
                    used.send("ucinewgame")
                elif kind == 1:
                    used.send(rng.choice(SETOPTIONS + ["setoption name Foo value Bar"]))
                elif kind == 2:
                    used.send(rng.choice(GARBAGE))
                else:
                    if not t[3]:
                        reply(used, pos_cmd(t[0], t[1]), rng.choice(["go", "go wtime 130 btime 130 movestogo 1", "go wtime 110 btime 110",
                                                                     "go wtime 140 btime 140", "go wtime 175 btime 175",
                                                                     "go wtime 102 btime 102 movestogo 1", "go wtime 103 btime 103 movestogo 1"]))
                    else:
                        # a finished game: the go is answered with the null move and must leave nothing behind
                        reply(used, pos_cmd(t[0], t[1]), "go wtime 130 btime 130 movestogo 1")
            if i % 3 == 0:
                reply(used, "position fen 7k/5Q2/6K1/8/8/8/8/8 b - - 0 1", "go")        # stalemate
                reply(used, "position startpos moves f2f3 e7e5 g2g4 d8h4", "go")         # checkmate
            # a search that completes every iteration (a forced mate is proven at once and the remaining depths
            # cost nothing): whatever a *finished* search keeps must not reach the next request either
            if i % 2 == 0:
                reply(used, rng.choice(["position fen 6k1/pp3ppp/2p5/2bN2Q1/8/8/PPP2PPP/4R1K1 w - - 0 1",
                                        "position fen 6k1/8/6K1/8/8/8/8/R7 w - - 0 1",
                                        "position fen r7/8/8/8/8/6k1/8/6K1 b - - 0 1"]), "go wtime 20000 btime 20000", timeout=20)
            # a search of a millisecond or two right before the probe: anything it leaves behind (queued sends,
            # tables) must not reach the next request
            reply(used, rng.choice(["position startpos", "position startpos moves e2e4", "position fen r3k2r/p1ppqpb1/bn2pnp1/3PN3/1p2P3/2N2Q1p/PPPBBPPP/R3K2R w KQkq - 0 1"]),
                  rng.choice(["go wtime 140 btime 140", "go wtime 102 btime 102 movestogo 1", "go wtime 103 btime 103 movestogo 1"]))
            used.isready()
            # zero allowance: identical bestmove
            a = reply(fresh, cmd, "go")
            b = reply(used, cmd, "go")
            o.evaluations += 2
            if a[-1] != b[-1] or a[-1] is None:
                ok = False
                o.violation("input", "zero-allowance answer differs after earlier traffic: fresh %r, used %r: %s" % (a[-1], b[-1], cmd), {"case": cmd, "fresh": a, "used": b})
            # repeating the same request gives the same result
            c = reply(used, cmd, "go")
            if c[-1] != b[-1]:
                ok = False
                o.violation("input", "repeating the request changes the answer: %r then %r: %s" % (b[-1], c[-1], cmd), {"case": cmd})
            # timed allowance: improvements identical up to where the shorter run stopped
            go = "go wtime 160 btime 160 movestogo 1" if i % 2 else "go wtime 600 btime 600 movestogo 1"
            ia = improvements(reply(fresh, cmd, go))
            ib = improvements(reply(used, cmd, go))
            o.evaluations += 2
            k = min(len(ia), len(ib))
            if ia[:k] != ib[:k]:
                okt = False
                j = next(x for x in range(k) if ia[x] != ib[x])
                o.violation("input", "timed search reports differ at improvement %d: fresh %s, used %s: %s" % (j, ia[j], ib[j], cmd), {"case": cmd, "fresh": ia, "used": ib})
            if len(o.samples) < 6:
                o.samples.append({"probe": cmd, "zero": a[-1], "improvements_compared": k})
            o.distinct += 1
        finally:
            fresh.close()
            used.close()
    # deterministic part: a search that ran through every depth (forced mate), then an ordinary position searched
    # for a second: node counts and scores must be those of a fresh engine (ordering tables start empty)
    okw = True
    for warm in ("position fen 6k1/pp3ppp/2p5/2bN2Q1/8/8/PPP2PPP/4R1K1 w - - 0 1", "position fen r7/8/8/8/8/6k1/8/6K1 b - - 0 1"):
        for probe in ("position startpos", "position fen r3k2r/p1ppqpb1/bn2pnp1/3PN3/1p2P3/2N2Q1p/PPPBBPPP/R3K2R w KQkq - 0 1"):
            fresh = blackbox.Engine(V.BINARY)
            used = blackbox.Engine(V.BINARY)
            try:
                fresh.handshake()
                used.handshake()
                reply(used, warm, "go wtime 20000 btime 20000", timeout=25)
                go = "go wtime 1350 btime 1350 movestogo 1"
                ia = improvements(reply(fresh, probe, go))
                ib = improvements(reply(used, probe, go))
                o.evaluations += 2
                k = min(len(ia), len(ib))
                if ia[:k] != ib[:k]:
                    okw = False
                    j = next(x for x in range(k) if ia[x] != ib[x])
                    o.violation("input", "after a search that completed every depth (%s), the reports on %s differ at improvement %d: fresh %s, used %s" % (warm, probe, j, ia[j], ib[j]),
                                {"case": "%s | go wtime 20000 btime 20000 | %s | %s" % (warm, probe, go), "fresh": ia, "used": ib})
            finally:
                fresh.close()
                used.close()
    o.oblige("after a search that completed every depth, a one-second search reports exactly what a fresh engine reports", okw)
    okr = repetition_reset_probes(o, tier, rng)
    o.oblige("a bare position command after a game with repetitions is answered like a fresh engine (repetition record reset)", okr)
    o.oblige("zero-allowance bestmove identical to a fresh engine's after arbitrary traffic; repeat gives the same (%d probes)" % len(probes), ok)
    o.oblige("timed improvements (depth, nodes, score, first pv move) identical up to the shorter run", okt)
    o.rule = "probe positions from specification-generated games, each asked of a fresh process and of a process that first served 2-6 items of traffic (games, timed and zero searches, ucinewgame, setoption, garbage); zero allowance compared exactly, 48 ms searches compared as prefixes; non-trivial = one probe"
    o.assumptions.append("timed runs are sampled under real scheduling")


@prop("C17", "C17.v", THEOREMS["C17"], binary=True)
def run_c17(o, tier, rng, prep):
    import blackbox
    # clean_input against the words of the line
    n = 800 if tier == "quick" else 30000
    alphabet = [chr(c) for c in WS] + list("abcgo wtime1234567890-") + ["é", "∀", "​", "\x1c", "\x1f", "᠎", "﻿", "𝔸"]
    strs = ["", " ", "\n", "   debug     on  \n", "\t  debug \t  \t\ton\t  \n", "isready\r\n", " go　wtime 1\n"]
    for _ in range(n):
        strs.append("".join(rng.choice(alphabet) for _ in range(rng.randrange(0, 30))))
    res = V.run_cases(["clean\t" + gens.hexs(s) for s in strs])
    mm, _ = V.compare(res, use_spec=False)
    report(o, "clean_input on strings over Unicode white space, near-white-space and text", res, mm, [], nontrivial=lambda r: (r.get("I") or "") != "clean ")
    okc = True
    for s, r in zip(strs, res):
        got = (r.get("I") or "")[6:]
        want = gens.hexs(" ".join(spec_words(s)))
        if got != want:
            okc = False
            o.violation("input", "clean_input(%r) is not the line's words joined by single spaces" % s, {"case": r["case"], "impl": got, "expected": want})
    o.oblige("clean_input = words joined by single spaces (Unicode White_Space)", okc)
    # unknown tokens inside go (at non-value positions) leave the parsed parameters unchanged
    unknown = ["ponder", "infinite", "searchmoves", "e2e4", "depth", "nodes", "mate", "movetime", "xyzzy", "żółć", "5", "-7"]
    gcases = []
    for _ in range(150 if tier == "quick" else 5000):
        vals = {k: rng.choice([0, 1, 99, 100, 101, 5000, 60000, -3, 2 ** 40]) for k in ("wtime", "btime", "winc", "binc")}
        keys = [k for k in vals if rng.random() < 0.8]
        rng.shuffle(keys)
        toks = ["go"]
        for k in keys:
            toks += [k, str(vals[k])]
        if rng.random() < 0.5:
            toks += ["movestogo", str(rng.choice([1, 2, 30, 40]))]
        clean = " ".join(toks)
        noisy = ["go"]
        i = 1
        while i < len(toks):
            for _ in range(rng.choice([0, 0, 1, 1, 2, 3])):
                noisy.append(rng.choice(unknown))
            noisy += toks[i:i + 2]
            i += 2
        for _ in range(rng.choice([0, 1, 2])):
            noisy.append(rng.choice(unknown))
        side = rng.choice("wb")
        gcases.append("slice\t%s\t%s" % (clean, side))
        gcases.append("slice\t%s\t%s" % (" ".join(noisy), side))
    gres = V.run_cases(gcases)
    gmm, _ = V.compare(gres, use_spec=False)
    report(o, "go parsing with unknown tokens at non-value positions", gres, gmm, [], nontrivial=lambda r: True)
    okg = True
    for i in range(0, len(gres), 2):
        a, b = gres[i].get("I"), gres[i + 1].get("I")
        if a != b or a is None or a == "slice Panic":
            okg = False
            o.violation("input", "unknown tokens inside go change what is parsed: %r gives %s, %r gives %s" % (
                gres[i]["case"], a, gres[i + 1]["case"], b), {"clean": gres[i]["case"], "noisy": gres[i + 1]["case"], "parsed_clean": a, "parsed_noisy": b})
    o.oblige("unknown tokens inside go are ignored: same parsed clocks and time slice", okg)
    # sessions with garbage on the real binary
    ok = True
    nsess = 6 if tier == "quick" else 60
    for si in range(nsess):
        eng = blackbox.Engine(V.BINARY)
        try:
            eng.handshake()
            eng.send("position startpos moves e2e4")
            script = []
            for _ in range(rng.randrange(3, 12)):
                g = rng.choice(GARBAGE + SETOPTIONS + ["go wtime 120 btime 120 movestogo 1 ponder searchmoves", "isready"])
                script.append(g)
                w = spec_words(g)
                first = w[0] if w else ""
                if first in ("quit", "position", "uci", "ucinewgame"):
                    continue
                eng.send(g)
                o.evaluations += 1
                if first == "go":
                    ls = eng.read_until(lambda l: l.startswith("bestmove"), 8)
                    if ls[-1] is None:
                        ok = False
                        o.violation("input", "go with unknown tokens not answered: %r" % script, {"script": script})
                elif first == "isready":
                    ls = eng.read_until(lambda l: l == "readyok", 4)
                    if ls[-1] != "readyok":
                        ok = False
                        o.violation("input", "isready not answered: %r" % script, {"script": script})
                else:
                    l = eng.read_line(0.02)
                    if l is not None and not l.startswith("info"):
                        ok = False
                        o.violation("input", "unknown line %r produced output %r" % (g, l), {"script": script, "line": l})
            # state unchanged by the garbage: black to move after e2e4, the answer is a black move
            if not eng.isready():
                ok = False
                o.violation("input", "isready not answered after garbage: %r" % script, {"script": script, "stderr": eng.stderr_text()})
            # lifecycle: quit or end of input ends the process promptly
            if si % 2 == 0:
                eng.send("quit")
                how = "quit"
            else:
                eng.close_stdin()
                how = "end of input"
            st = eng.wait_exit(3)
            if st is None:
                ok = False
                o.violation("input", "process still running 3 s after %s: %r" % (how, script), {"script": script, "how": how})
            hist_add(o, "ended by " + how)
            if len(o.samples) < 6:
                o.samples.append({"script": script, "ended_by": how, "exit_status": st})
            o.distinct += 1
        finally:
            eng.close()
    eng = blackbox.Engine(V.BINARY)
    try:
        eng.handshake()
        hung = False
        for j in range(40 if tier == "quick" else 400):
            eng.send("position fen r1bq1rk1/pp2bppp/2n1pn2/2pp4/2PP4/2N1PN2/PP2BPPP/R1BQ1RK1 w - - 0 1")
            eng.send("go wtime %d btime %d" % ((175, 175) if j % 2 else (140, 140)))
            ls = eng.read_until(lambda l: l.startswith("bestmove"), 5)
            o.evaluations += 1
            if ls[-1] is None or not eng.isready(3):
                hung = True
                break
        if not hung:
            eng.send("quit")
            hung = eng.wait_exit(3) is None
        if hung:
            ok = False
            o.violation("input", "after go commands with a 1-2 ms allowance the engine stops answering (bestmove/readyok/quit): position fen r1bq1rk1/pp2bppp/2n1pn2/2pp4/2PP4/2N1PN2/PP2BPPP/R1BQ1RK1 w - - 0 1 | go wtime 175 btime 175",
                        {"case": "go wtime 175 btime 175 repeated", "stderr": eng.stderr_text()[-300:]})
        hist_add(o, "lifecycle after 1-2 ms searches")
    finally:
        eng.close()
    # the same, deterministically: on the real search function with the virtual clock, every early deadline must hand a move
    # back - the loop that waits for it is the one that notices quit and end of input
    lres = V.run_cases(["search\t%s\t%d" % (c, k) for c in ("position startpos", "position fen r1bq1rk1/pp2bppp/2n1pn2/2pp4/2PP4/2N1PN2/PP2BPPP/R1BQ1RK1 w - - 0 1",
                                                               "position startpos moves e2e4") for k in range(0, 8)])
    okl = True
    for r in lres:
        d = parse_search(r.get("I"))
        o.evaluations += 1
        if d.get("bad") or d.get("panic") or not d.get("sends"):
            okl = False
            o.violation("input", "a search with an early deadline hands nothing back; the session then waits for ever and notices neither quit nor end of input: %s -> %s" % (r["case"], (r.get("I") or "")[:120]),
                        {"case": r["case"], "impl": r.get("I")})
    o.oblige("every early deadline (clock readings 0..7) ends with a move handed back, so the command loop is reached again", okl)
    # the one option the engine has switches a log file on: from then on ignored lines are also logged, and must
    # still be ignored - every garbage line once, each followed by isready
    eng = blackbox.Engine(V.BINARY)
    try:
        eng.handshake()
        eng.send("setoption name DebugLogLevel value Info")
        eng.send("position startpos moves e2e4")
        for g in GARBAGE + ["setoption name Hash value 1", "debug", "go2 infinite"]:
            w = spec_words(g)
            if w and w[0] in ("quit", "position", "uci", "ucinewgame", "go", "isready"):
                continue
            eng.send(g)
            o.evaluations += 1
            if not eng.isready():
                ok = False
                o.violation("input", "with the debug log on, isready is not answered after the ignored line %r" % g,
                            {"script": ["setoption name DebugLogLevel value Info", g, "isready"], "stderr": eng.stderr_text()})
                break
        hist_add(o, "garbage session with the debug log on")
    finally:
        eng.close()
    # end of input at every point of a small session
    base = ["uci", "isready", "position startpos", "go wtime 110 btime 110", "isready", "setoption name DebugLogLevel value None"]
    for cut in range(0, len(base) + 1):
        eng = blackbox.Engine(V.BINARY)
        try:
            for l in base[:cut]:
                eng.send(l)
            time.sleep(0.05)
            eng.close_stdin()
            st = eng.wait_exit(4)
            o.evaluations += 1
            if st is None:
                ok = False
                o.violation("input", "process spins after end of input following %r" % base[:cut], {"script": base[:cut]})
        finally:
            eng.close()
    # end of input directly after every kind of last line (blank, white space only, garbage, a command, a go)
    for last in ["", " ", "   \t ", "\u2003", "xyzzy", "isready", "ucinewgame", "position startpos moves e2e4", "go wtime 110 btime 110", "setoption name X value Y"]:
        for pre in (["uci"], ["uci", "position startpos", "go wtime 105 btime 105"]):
            eng = blackbox.Engine(V.BINARY)
            try:
                for l in pre + [last]:
                    eng.send(l)
                time.sleep(0.03)
                eng.close_stdin()
                st = eng.wait_exit(4)
                o.evaluations += 1
                if st is None:
                    ok = False
                    o.violation("input", "process still running 4 s after end of input that follows the line %r (session %r)" % (last, pre), {"script": pre + [last]})
            finally:
                eng.close()
    o.oblige("garbage ignored, isready answered, quit and end of input end the process (real binary)", ok)
    o.rule = "strings over the 25 Unicode White_Space characters, look-alikes that are not white space (U+200B, U+180E, U+FEFF, U+001C..1F) and text for clean_input; sessions on the real binary mixing unknown commands, empty and white-space lines, Unicode garbage, go with unknown tokens and isready, ended alternately by quit and by closing stdin; end of input after every prefix of a six-line session; non-trivial = non-empty cleaned line / one session"
    o.assumptions.append("lines are valid UTF-8 text (UCI is a text protocol); malformed values of known go tokens are outside the property's domain")
