"""Per-property check definitions: theorem files, generators, comparisons, black-box parts."""
import json
import os
import re
import subprocess
import sys
import time

import gens
import vcheck as V

PROPS = {}


def prop(pid, file, theorems, axioms=(), binary=False):
    def deco(fn):
        PROPS[pid] = {"file": file, "theorems": theorems, "axioms": axioms, "binary": binary, "run": fn}
        return fn
    return deco


def hist_add(o, key, n=1):
    o.hist[key] = o.hist.get(key, 0) + n


def report(o, batch, results, mm, sm, nontrivial=None, spec_is_property=True):
    """account for one correspondence batch"""
    o.evaluations += len(results)
    o.traces += len(results)
    hist_add(o, "batch:" + batch, len(results))
    o.oblige("correspondence model = implementation on batch '%s' (%d cases)" % (batch, len(results)), not mm)
    o.oblige("specification oracle = implementation on batch '%s'" % batch, not sm)
    if nontrivial is not None:
        seen = set()
        for r in results:
            if nontrivial(r):
                seen.add(r["case"])
        o.distinct += len(seen)
    for r in results[:2]:
        if len(o.samples) < 12:
            o.samples.append(r["case"][:300])
    for r in sm[:3]:
        o.violation("input" if spec_is_property else "corr",
                    "batch %s: implementation differs from the specification on case %r: %s" % (
                        batch, r["case"][:200], V.first_diff(r.get("P"), r.get("S"))),
                    {"case": r["case"], "impl": r.get("P"), "spec": r.get("S")})
    if not sm:
        for r in mm[:3]:
            o.violation("corr",
                        "batch %s: correspondence model/implementation broken on case %r: %s" % (
                            batch, r["case"][:200], V.first_diff(r.get("I"), r.get("M"))),
                        {"correspondence": batch, "case": r["case"], "impl": r.get("I"), "model": r.get("M")})


# ---------------------------------------------------------------- shared position pools
_pool_cache = {}


def game_pool(rng, n_games, plies, tag="g"):
    key = (tag, n_games, plies)
    if key not in _pool_cache:
        starts = gens.corpus_fens()
        _pool_cache[key] = gens.playouts(rng, starts, n_games, plies)
    return _pool_cache[key]


def positions_of_games(games):
    seen = set()
    out = []
    for g in games:
        for f in g.fens:
            if f not in seen:
                seen.add(f)
                out.append(f)
    return out


def tags_hist(o, games):
    for g in games:
        for t in g.tags:
            for x in t.split(","):
                if x:
                    hist_add(o, "tag:" + x)
        hist_add(o, "game_len:%d" % (10 * (len(g.moves) // 10)))


def moves_nontrivial(r):
    """a gen case is non-trivial when its legal move list has castling, promotion, en passant or the mover is in check"""
    s = r.get("S") or ""
    m = re.search(r"chk=(\d)(\d)", s)
    incheck = m and ("1" in m.group(0))
    mv = s.split("moves=")[-1] if "moves=" in s else ""
    promo = re.search(r"(?:^|,)[a-h][1-8][a-h][1-8][qrbn]=", mv) is not None
    castle = re.search(r"(?:^|,)e([18])[cg]\1=", mv) is not None
    ep = re.search(r"root=[^ ]*/(\d,\d)#", s) is not None
    return bool(incheck or promo or castle or ep)


# ---------------------------------------------------------------- C14
@prop("C14", "C14.v", ["C14_mirror", "C14_side", "C14_depends_only_on", "C14_bounded"])
def run_c14(o, tier, rng, prep):
    n = 400 if tier == "quick" else 20000
    fens = gens.random_placements(rng, n)
    # single-piece basis, exhaustive: 12 pieces x 64 squares
    basis = []
    for pc in "PNBRQKpnbrqk":
        for f in range(8):
            for r in range(8):
                basis.append(gens.fen_of_grid({(f, r): pc}, stm="w"))
    fens = basis + fens
    cases = []
    for f in fens:
        parts = f.split(" ")
        flipped = " ".join([parts[0], "b" if parts[1] == "w" else "w"] + parts[2:])
        cases += ["eval\t" + f, "eval\t" + gens.mirror_fen(f), "eval\t" + flipped]
    res = V.run_cases(cases)
    mm, _ = V.compare(res, use_spec=False)
    report(o, "eval on single-piece basis (exhaustive) and random placements with mirrored and side-flipped twins", res, mm, [],
           nontrivial=lambda r: r.get("I") not in (None, "eval 0"))
    o.rule = "placements: 768 single-piece boards (exhaustive) plus random placements (up to nine queens a side, pawns on any rank), each with its colour-mirrored twin and its side-flipped twin; distinct = distinct FENs with a non-zero evaluation"
    bound = None
    try:
        txt = open(os.path.join(V.COQ, "Gen", "Consts.v")).read()
        mate = int(re.search(r"Definition MATE_SCORE : Z := (\d+)", txt).group(1))
        bound = mate - 100
    except Exception:
        pass
    for i in range(0, len(res), 3):
        try:
            a, m, fl = [int(res[i + k]["I"].split(" ")[1]) for k in range(3)]
        except Exception:
            o.violation("input", "evaluation failed on " + res[i]["case"], {"case": res[i]["case"], "impl": [res[i + k].get("I") for k in range(3)]})
            continue
        if a != m:
            o.violation("input", "mirror symmetry fails: eval=%d mirrored=%d for %s" % (a, m, res[i]["case"]), {"case": res[i]["case"], "mirror": res[i + 1]["case"], "values": [a, m]})
        if a != -fl:
            o.violation("input", "side relativity fails: eval=%d other side=%d for %s" % (a, fl, res[i]["case"]), {"case": res[i]["case"], "values": [a, fl]})
        if bound is not None and abs(a) >= bound:
            o.violation("input", "evaluation %d reaches the mate range for %s" % (a, res[i]["case"]), {"case": res[i]["case"], "value": a})
    o.oblige("metamorphic relations (mirror, side, bound) on the implementation", not o.violations)
    o.assumptions.append("i32 arithmetic does not wrap: |eval| <= 64*max_cell is part of C14_bounded")


# ---------------------------------------------------------------- C01 / C02 / C13 (generator against the rules)
def gen_cases_from_positions(fens, mode="A"):
    return ["gen\t%s\t%s\t" % (mode, f) for f in fens]


def geometry_positions(rng, tier):
    cast = gens.castling_geometry(rng, limit=(700 if tier == "quick" else None))
    ep = gens.ep_geometry(rng, 500 if tier == "quick" else 6000)
    pr = gens.promotion_geometry(rng, 300 if tier == "quick" else 4000)
    legal = gens.filter_legal(cast + ep + pr)
    return [f for f, _, _ in legal]


@prop("C01", "C01.v", ["C01_is_check_matches_rules", "C01_castling_safety_uses_probed_square"])
def run_c01(o, tier, rng, prep):
    corpus = [l.strip() for l in open(os.path.join(V.VERIF, "corpus", "c01_regress.txt")) if l.strip() and not l.startswith("#")]
    geo = geometry_positions(rng, tier)
    games = game_pool(rng, 40 if tier == "quick" else 1500, 60)
    tags_hist(o, games)
    pos = positions_of_games(games)
    if tier == "quick":
        rng.shuffle(pos)
        pos = pos[:1200]
    for name, fens in (("regression corpus", corpus), ("castling/en-passant/promotion geometry", geo), ("positions of random legal games", pos)):
        res = V.run_cases(gen_cases_from_positions(fens))
        # C01 is about the move set: compare descriptors (and resulting positions) as sorted multisets
        mm, sm = V.compare(res)
        report(o, name, res, mm, sm, nontrivial=moves_nontrivial)
    o.rule = "legal positions (accepted by the specification's legal_position): regression corpus, enumerated castling geometry (4 castling kinds x 6 enemy kinds incl. king x every square, blockers), en-passant pins/evasions, promotions incl. corner captures, and every prefix of random legal games generated by the specification; non-trivial = castling, promotion or en passant available, or the mover in check"
    o.assumptions.append("the successor order and order_heuristic are compared too (model = implementation), beyond what C01 needs")


@prop("C02", "C02.v", ["C02_descriptor_text"])
def run_c02(o, tier, rng, prep):
    games = game_pool(rng, 40 if tier == "quick" else 1500, 60)
    geo = geometry_positions(rng, tier)
    cases = []
    # chains: two or three plies walked through *generated* successors, then all successors dumped
    for g in games:
        n = len(g.moves)
        for k in range(0, n, 3 if tier == "quick" else 1):
            j = max(0, k - rng.choice([1, 2, 3]))
            cases.append("gen\tA\t%s\t%s" % (g.fens[j], " ".join(g.moves[j:k])))
    if tier == "quick":
        rng.shuffle(cases)
        cases = cases[:1000]
    cases += gen_cases_from_positions(geo)
    corpus = [l.rstrip("\n") for l in open(os.path.join(V.VERIF, "corpus", "c02_regress.txt")) if l.strip() and not l.startswith("#")]
    cases = corpus + cases
    res = V.run_cases(cases)
    mm, sm = V.compare(res)
    report(o, "successor records along chains of generated successors", res, mm, sm, nontrivial=moves_nontrivial)
    o.rule = "chains of 0-3 generated successors (so inherited fields are exercised) from prefixes of specification-generated games and geometry families; every successor's full record, descriptor and printed bestmove text compared; non-trivial as for C01"


@prop("C13", "C13.v", ["C13_capture_targets_are_enemy"])
def run_c13(o, tier, rng, prep):
    games = game_pool(rng, 40 if tier == "quick" else 1500, 60)
    pos = positions_of_games(games)
    geo = geometry_positions(rng, tier)
    if tier == "quick":
        rng.shuffle(pos)
        pos = pos[:600]
    # capture chains as quiescence follows them: playouts restricted to captures by the specification
    cg = gens.playouts(rng, pos + geo, 300 if tier == "quick" else 8000, 6, only_captures=True)
    cases = []
    for g in cg:
        for k in range(len(g.moves) + 1):
            cases.append("gen\tC\t%s\t%s" % (g.fens[0], " ".join(g.moves[:k])))
    corpus = [l.rstrip("\n") for l in open(os.path.join(V.VERIF, "corpus", "c13_regress.txt")) if l.strip() and not l.startswith("#")]
    cases = corpus + gen_cases_from_positions(geo, "C") + cases
    seen = set()
    cases = [c for c in cases if not (c in seen or seen.add(c))]
    res = V.run_cases(cases)
    mm, sm = V.compare(res)
    report(o, "capture-only generation along capture chains", res, mm, sm,
           nontrivial=lambda r: "moves=" in (r.get("S") or "") and not (r.get("S") or "").endswith("moves="))
    o.rule = "capture-only generation at every prefix of capture chains (0-6 plies, followed through capture-only generation as quiescence does) from game positions and en-passant/promotion geometry; non-trivial = at least one legal capture"


# ---------------------------------------------------------------- C04 / C05 / C10 (position command)
def pos_cmd(start, moves):
    if start == gens.START:
        base = "position startpos"
    else:
        base = "position fen " + start
    return base + (" moves " + " ".join(moves) if moves else "")


def shuffle_games(rng, n, cycles_max):
    """histories with repetitions: shuffles by both sides interleaved with irreversible moves"""
    games = gens.playouts(rng, gens.corpus_fens(), n, 14)
    out = []
    for g in games:
        if not g.moves:
            continue
        k = rng.randrange(0, len(g.moves) + 1)
        out.append((g.start, g.moves[:k], g.fens[k]))
    return out


@prop("C04", "C04.v", ["C04_contains_corner"])
def run_c04(o, tier, rng, prep):
    games = game_pool(rng, 40 if tier == "quick" else 1500, 60)
    tags_hist(o, games)
    cases = []
    for g in games:
        step = 4 if tier == "quick" else 1
        for k in list(range(0, len(g.moves) + 1, step)) + [len(g.moves)]:
            cases.append("pos\t" + pos_cmd(g.start, g.moves[:k]))
    seen = set()
    cases = [c for c in cases if not (c in seen or seen.add(c))]
    res = V.run_cases(cases)
    mm, sm = V.compare(res)
    report(o, "position command replay on prefixes of legal games", res, mm, sm, nontrivial=lambda r: " moves " in r["case"])
    # generator versus text applier: every generated move printed and replayed reproduces its successor
    pos = positions_of_games(games) + geometry_positions(rng, tier)
    if tier == "quick":
        rng.shuffle(pos)
        pos = pos[:800]
    rcases = ["replay\t%s\t" % f for f in pos]
    res2 = V.run_cases(rcases)
    mm2, sm2 = V.compare(res2)
    report(o, "every generated move, printed and replayed through make_move, reproduces its own successor", res2, mm2, sm2,
           nontrivial=lambda r: True)
    o.rule = "position commands for prefixes of specification-generated legal games from 40 starts (castling, en passant, promotions, corner rook moves/captures counted in input_distribution); plus generator-versus-text replay of every successor; non-trivial = at least one move replayed"


@prop("C05", "C05.v", ["C05_xor_cancel", "C05_concrete_table_sensitive"])
def run_c05(o, tier, rng, prep):
    games = game_pool(rng, 40 if tier == "quick" else 1500, 60)
    cases = []
    for g in games:
        for k in range(0, len(g.moves) + 1, 5 if tier == "quick" else 1):
            # three producers of the same position: FEN loader, text replay, generator chain
            cases.append("fen\t" + gens.hexs(g.fens[k]))
            cases.append("pos\t" + pos_cmd(g.start, g.moves[:k]))
            j = max(0, k - 4)
            cases.append("gen\tA\t%s\t%s" % (g.fens[j], " ".join(g.moves[j:k])))
    res = V.run_cases(cases)
    mm, sm = V.compare(res)
    report(o, "key of FEN loader, text replay and generator chains against the from-scratch hash", res, mm, sm, nontrivial=lambda r: True)
    # the three producers must agree with each other on the key of the same position
    bad = 0
    for i in range(0, len(res) - 2, 3):
        keys = []
        for r in res[i:i + 3]:
            m = re.search(r"(?:Ok |root=)[^ #]*#([0-9a-f]{16})", r.get("P") or "")
            keys.append(m.group(1) if m else None)
        if len(set(keys)) != 1 or keys[0] is None:
            bad += 1
            o.violation("input", "route dependence: keys %s for %s" % (keys, res[i + 1]["case"]), {"cases": [r["case"] for r in res[i:i + 3]], "keys": keys})
    o.oblige("three producers agree on the key of the same position", bad == 0)
    o.rule = "every 1st/5th prefix of specification-generated games, reached three ways (FEN of the position, position command, chain of generated successors); each key compared with the specification's from-scratch hash and with the other two"


@prop("C10", "C10.v", ["C10_add_remove_restores", "C10_count_after_add"])
def run_c10(o, tier, rng, prep):
    cases = []
    n = 150 if tier == "quick" else 4000
    base = gens.playouts(rng, gens.corpus_fens(), n, 20)
    # knight/king/rook shuffles produce repetitions; interleave with the game's own (often irreversible) moves
    for g in base:
        if len(g.moves) < 2:
            continue
        cases.append("pos\t" + pos_cmd(g.start, g.moves))
    # explicit repetition families from the start position and two endgames
    shuffles = [
        (gens.START, ["g1f3", "g8f6", "f3g1", "f6g8"]),
        (gens.START, ["b1c3", "b8c6", "c3b1", "c6b8"]),
        ("q7/8/2k5/8/8/8/8/7K w - - 0 1", ["h1g1", "a8b8", "g1h1", "b8a8"]),
        ("7k/RR6/8/8/8/8/rr6/7K w - - 0 1", ["a7a6", "a2a3", "a6a7", "a3a2"]),
    ]
    for start, cyc in shuffles:
        for reps in range(0, 7 if tier == "quick" else 26):
            for cut in range(len(cyc)):
                mv = cyc * reps + cyc[:cut]
                cases.append("pos\t" + pos_cmd(start, mv))
        # repetitions interleaved with an irreversible move
        if start == gens.START:
            mv = cyc * 2 + ["e2e4", "e7e5"] + cyc * 3 + ["d2d4"] + cyc
            cases.append("pos\t" + pos_cmd(start, mv))
    seen = set()
    cases = [c for c in cases if not (c in seen or seen.add(c))]
    res = V.run_cases(cases)
    mm, sm = V.compare(res)
    report(o, "repetition record after the position command", res, mm, sm,
           nontrivial=lambda r: re.search(r"counts=.*[2-9]", r.get("S") or "") is not None)
    o.rule = "position commands for random legal games and for shuffle histories with 0-6 (thorough: 0-25) repetitions interleaved with irreversible moves; the table is compared entry by entry with the model and as a multiset of counts with the rules-level replay; the harness starts from a dirty table cleared as the dispatcher does; non-trivial = some position occurs at least twice"
    o.assumptions.append("64-bit Zobrist collisions: positions are identified with keys; collision-freedom on the history at hand is assumed")
    run_search_repetition(o, tier, rng)


def run_search_repetition(o, tier, rng):
    """a move to a position already seen twice is valued as a draw: final score of each completed depth >= 0"""
    sessions = []
    for reps in (2, 3, 4):
        mv = ["h1g1", "a8b8", "g1h1", "b8a8"] * reps
        sessions.append(("q7/8/2k5/8/8/8/8/7K w - - 0 1", mv))
    cases = ["search\t%s\t%d" % (pos_cmd(s, m), 3000 if tier == "quick" else 20000) for s, m in sessions]
    res = V.run_cases(cases)
    mm, _ = V.compare(res, use_spec=False)
    o.evaluations += len(res)
    o.oblige("search model = implementation on repetition positions (node for node)", not mm)
    for r in mm[:2]:
        o.violation("corr", "search correspondence broken on %s: %s" % (r["case"][:120], V.first_diff(r.get("I"), r.get("M"))), {"case": r["case"], "impl": r.get("I"), "model": r.get("M")})
    for r in res:
        infos = (r.get("I") or "").split("infos=")[-1].split(" restored=")[0].split("|")
        last = {}
        for l in infos:
            m = re.search(r"depth (\d+) .*score (cp|mate) (-?\d+)", l)
            if m:
                last[int(m.group(1))] = (m.group(2), int(m.group(3)))
        # the last depth may be cut by the clock; all earlier depths are complete
        depths = sorted(last)
        for d in depths[:-1]:
            kind, v = last[d]
            if (kind == "cp" and v < 0) or (kind == "mate" and v < 0):
                o.violation("input", "a repetition move exists but depth %d reports %s %d: %s" % (d, kind, v, r["case"]), {"case": r["case"], "infos": infos})
    o.oblige("with a repetition move available every completed depth scores >= 0", not [v for v in o.violations if v[0] == "input"])


# ---------------------------------------------------------------- C06
@prop("C06", "C06.v", ["C06_walk_finds_first_piece", "C06_walk_terminates"])
def run_c06(o, tier, rng, prep):
    if tier == "quick":
        fens = gens.check_geometry(rng, 2500) + gens.random_placements(rng, 500)
    else:
        fens = gens.check_geometry(rng, None) + gens.check_geometry(rng, 60000, with_blocker=True) + gens.random_placements(rng, 20000)
    cases = ["chk\t" + f for f in fens]
    seen = set()
    cases = [c for c in cases if not (c in seen or seen.add(c))]
    res = V.run_cases(cases)
    mm, sm = V.compare(res)
    report(o, "is_check for both colours on attacker/blocker geometry and random placements", res, mm, sm,
           nontrivial=lambda r: "1" in (r.get("S") or "").split(" ")[-1])
    o.rule = "placements with one king each, legal or not: king square x attacker kind x attacker square (thorough: exhaustive 64*63*6) with an optional blocker on the segment, plus random placements; both colours judged; non-trivial = at least one side in check"
    if tier == "thorough":
        o.extra["exhaustive"] = False


# ---------------------------------------------------------------- C15
@prop("C15", "C15.v", ["C15_total"], binary=True)
def run_c15(o, tier, rng, prep):
    games = game_pool(rng, 40 if tier == "quick" else 1500, 60)
    legal = positions_of_games(games)
    valid, bad = gens.fen_strings(rng, legal, 600 if tier == "quick" else 20000, 1500 if tier == "quick" else 60000)
    corpus = [json.loads(l) for l in open(os.path.join(V.VERIF, "corpus", "c15_regress.jsonl")) if l.strip()]
    res = V.run_cases(["fen\t" + gens.hexs(s) for s in corpus + bad])
    mm, sm = V.compare(res)
    report(o, "malformed FEN stream (outcome class and all fields)", res, mm, sm, nontrivial=lambda r: (r.get("I") or "") != "fen Err")
    for r in res:
        if (r.get("I") or "").startswith("fen Panic"):
            o.violation("input", "from_fen panics on %r" % r["case"], {"case": r["case"], "impl": r.get("I")})
    o.oblige("no panic on the malformed stream", not any((r.get("I") or "").startswith("fen Panic") for r in res))
    res = V.run_cases(["fen\t" + gens.hexs(s) for s in valid])
    mm, sm = V.compare(res)
    report(o, "well-formed FENs of legal positions with counters up to 2^32-1", res, mm, sm, nontrivial=lambda r: True)
    # faithful: the loaded position is the one the FEN states (expected projection from the specification's printer)
    nbad = 0
    for s, r in zip(valid, res):
        p = r.get("P") or ""
        if not p.startswith("fen Ok"):
            nbad += 1
            o.violation("input", "well-formed FEN of a legal position rejected: %r -> %s" % (s, p), {"fen": s, "impl": p})
            continue
        f = s.strip().split(" ")
        if expected_proj(f) != p.split(" ")[2].split("#")[0]:
            nbad += 1
            o.violation("input", "loaded position differs from the FEN: %r -> %s" % (s, p), {"fen": s, "impl": p, "expected": expected_proj(f)})
    o.oblige("accepted and faithful on well-formed FENs", nbad == 0)
    # command-line front end: prints the error and exits normally
    if os.path.exists(V.BINARY):
        n = 0
        for s in (corpus + bad)[: (40 if tier == "quick" else 400)]:
            if "\x00" in s:
                continue
            try:
                p = subprocess.run([V.BINARY, "--fen", s, "-T", "-d", "1"], capture_output=True, text=True, timeout=20)
            except Exception as e:
                o.violation("input", "front end did not finish on %r: %s" % (s, e), {"fen": s})
                continue
            n += 1
            if p.returncode != 0:
                o.violation("input", "front end exits with status %d on %r: %s" % (p.returncode, s, p.stderr[-200:]), {"fen": s, "status": p.returncode, "stderr": p.stderr[-500:]})
        o.evaluations += n
        o.oblige("command-line front end exits normally on malformed FENs (%d runs)" % n, not [v for v in o.violations if "front end" in v[1]])
    o.rule = "strings: regression corpus, malformed stream (field replaced by junk incl. 2-4 byte characters, truncation, over-long rows, swapped fields, bad counters, random alphabet strings) and FENs of specification-generated legal positions with counters in {0,1,7,99,255,256,300,5898,65535,2^32-1}; non-trivial = not rejected"


def expected_proj(f):
    rows = f[0].split("/")
    pl = ""
    for row in rows[::-1]:
        for ch in row:
            pl += "." * int(ch) if ch.isdigit() else ch
    rights = "".join("1" if c in f[2] else "0" for c in "KQkq")
    ep = "-"
    if f[3] != "-":
        ep = "%d,%d" % ("abcdefgh".index(f[3][0]), int(f[3][1]) - 1)
    return "%s/%s/%s/%s" % (pl, f[1], rights, ep)


def replay(pid, path):
    d = json.load(open(path))
    print(json.dumps(d, indent=1)[:4000])
    rp = d.get("replay", {})
    case = rp.get("case")
    if case:
        V.prepare()
        res = V.run_cases([case])
        for k in "IMPS":
            print(k, (res[0].get(k) or "")[:2000])
    return 0
