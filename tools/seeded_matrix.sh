#!/bin/bash
# Apply every seeded change to /repo in turn, run the listed checks (quick), undo it, and print a table.
# usage: tools/seeded_matrix.sh [id ...]      (default: all of /verif/seeded/*)
cd /verif
export VERIF_EVIDENCE_DIR=/verif/build/evidence_scratch
ids=${@:-$(ls seeded)}
for id in $ids; do
  props=$(python3 -c "import json;m=json.load(open('/verif/seeded/$id/meta.json'));print(' '.join(m.get('checked_with',[m['property']])))")
  (cd /repo && git apply /verif/seeded/$id/patch.diff) || { echo "$id: patch does not apply"; continue; }
  for p in $props; do
    r=$(tools/vcheck $p quick 2>&1 | grep -E "^VIOLATION|held on" | head -1)
    case "$r" in
      *no-failing-input-found*) v="caught (proof/correspondence broken, no failing input found)";;
      VIOLATION*) v="caught with a concrete failing input";;
      *) v="MISSED";;
    esac
    echo "$id | $p | $v"
  done
  (cd /repo && git checkout -- .)
done
