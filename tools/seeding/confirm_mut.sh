#!/bin/bash
export VERIF_EVIDENCE_DIR=/verif/build/evidence_scratch
# usage: confirm_mut.sh <wt dir> <seed id> <prop...>
wt=$1; id=$2; shift; shift
cd $wt || exit 1
git diff -- src > /tmp/cur_$id.diff
if ! diff -q /tmp/cur_$id.diff mutation/patch.diff >/dev/null; then echo "NOTE: patch.diff differs from worktree diff"; fi
t=$(cargo test --offline 2>&1 | grep "test result" | head -1); echo "tests with change: $t"
if [ -f mutation/demo.sh ]; then
  (timeout 600 sh mutation/demo.sh > /tmp/demo_with_$id.log 2>&1; echo "demo with change: exit $?")
  git apply -R /tmp/cur_$id.diff
  (timeout 600 sh mutation/demo.sh > /tmp/demo_without_$id.log 2>&1; echo "demo without change: exit $?")
  git apply /tmp/cur_$id.diff
else echo "no demo.sh"; fi
git diff -- src > /tmp/cur2_$id.diff; diff -q /tmp/cur_$id.diff /tmp/cur2_$id.diff >/dev/null || echo "WARNING: worktree changed by demo"
mkdir -p /verif/seeded/$id
cp mutation/* /verif/seeded/$id/ 2>/dev/null
cp /tmp/cur_$id.diff /verif/seeded/$id/patch.diff
cd /repo && git apply /verif/seeded/$id/patch.diff || { echo "apply to /repo failed"; exit 1; }
for p in "$@"; do
  out=$(cd /verif && tools/vcheck $p quick 2>&1 | grep -E "VIOLATION|KNOWN|held on" | head -2 | cut -c1-220)
  echo "== seeded $id -> $p: $out"
done
git checkout -- .
