import sys
pid=sys.argv[1]; tag=sys.argv[2]
prop=open('/tmp/prop_%s.txt'%pid).read()
import json
_t=json.load(open('/verif/tools/seeding/tried.json'))
tried={k:" ;; ".join("(%d) %s"%(n+1,x) for n,x in enumerate(v)) for k,v in _t.items()}
print(f"""You are helping to evaluate a verification framework by producing ONE realistic, subtle bug ("seeded change") in a small Rust chess engine (Walleye, a UCI engine with a 12x12 mailbox board, legal move generation, Zobrist hashing, alpha-beta search).

Your private scratch copy of the repository is the git worktree /tmp/wt_{tag} . Work ONLY inside /tmp/wt_{tag}. Do NOT read, list or touch anything under /verif, /repo or /root/.vp (those are off limits; the point is that your change is independent of the existing checks). The sandbox has no network; `cargo build --offline` and `cargo test --offline` work in the worktree (use `--offline`; the first build takes ~30 s). Code guarded by `#[cfg(walleye_verif)]` is test instrumentation: leave it alone.

The semantic property your change must BREAK:

{prop}

Earlier rounds already tried the following ideas, so pick a DIFFERENT mechanism and a different code site from all of them: {tried.get(pid,'(none)')}.
Think about other places the property depends on: other piece kinds or move kinds, the other colour, boundary files/ranks, the other producer/consumer of the same data (FEN loader, text-move applier, generator, search bookkeeping, time control branch, output formatting), rarely taken branches, off-by-one in a range, a condition that is right for one colour only, state carried between calls.

Requirements for the change:
1. It modifies only files under /tmp/wt_{tag}/src (keep it small: a few lines, the kind of slip a maintainer could plausibly make in a refactor or an "optimisation"; no new dependencies; do not touch tests).
2. The crate still compiles and the existing test suite still passes unchanged: `cd /tmp/wt_{tag} && cargo test --offline` must report all 107 tests passing with your change applied.
3. The breakage must need something SPECIFIC to manifest - a particular kind of position, a multi-step sequence of moves/commands, an unusual input, a particular expiry point/interleaving, or two cooperating sites that each look fine alone. It must NOT be something that ordinary use (e.g. searching from the start position, or any random game) would expose at once, and it must not be a crash on every input.
4. Provide a demonstration that FAILS with your change and PASSES without it: an extra Rust unit test pasted temporarily into the relevant `mod tests` by a script, or a small shell/python script driving the built binary over stdin/stdout with UCI commands. You must actually run it both ways and report the outputs. IMPORTANT: do NOT use `git stash` (the stash is shared between all worktrees of the repository and other people work in sibling worktrees at the same time); to test without your change run `git diff -- src > /tmp/wt_{tag}/mutation/patch.diff && git apply -R /tmp/wt_{tag}/mutation/patch.diff`, and re-apply it afterwards with `git apply /tmp/wt_{tag}/mutation/patch.diff`.

Deliverables - create the directory /tmp/wt_{tag}/mutation/ containing:
 - patch.diff : output of `git diff -- src` with ONLY your seeded change (not the demonstration test);
 - demo.sh : the demonstration, runnable as `sh mutation/demo.sh` from the worktree root, exiting non-zero when the change is applied and 0 when it is not (it must restore any file it temporarily edits);
 - meta.json : {{"property": "{pid}", "summary": "<one sentence>", "needs_to_manifest": "<what specific condition is needed>", "files": [...], "demo_run_with_change": "<observed output, short>", "demo_run_without_change": "<observed output, short>", "tests_pass_with_change": true}}
Leave the worktree with your change APPLIED to src (and the demonstration files only under mutation/), so that `git -C /tmp/wt_{tag} diff -- src` shows exactly patch.diff.

Be efficient: read the relevant source files first (src/*.rs; tests are at the bottom of each file), pick one idea, implement, verify (tests + demo both ways), write the deliverables, and finish with a short report of what you did. One good mutation is enough. If your first idea makes an existing test fail, adjust or pick another.""")
