#!/bin/bash
# usage: confirm2.sh <tag e.g. C01b> <seed id e.g. C01-b> <props...>
tag=$1; id=$2; shift; shift
/tmp/confirm_mut.sh /tmp/wt_$tag $id "$@" 2>&1 | tail -$((3 + $#))
python3 - <<PY
import json
mp='/verif/seeded/$id/meta.json'
m=json.load(open(mp))
m['property']='$id'.split('-')[0]
m['checked_with']="$*".split()
m['confirmed']={"by":"main session, in the agent's scratch worktree before it was removed","what_i_ran":["cargo test --offline (107 passed with the change)","sh mutation/demo.sh with the change (non-zero exit)","git stash; sh mutation/demo.sh (exit 0); git stash pop","git -C /repo apply patch.diff; tools/vcheck <id> quick; git -C /repo checkout -- ."]}
json.dump(m,open(mp,'w'),indent=1)
PY
cd /repo && git worktree remove --force /tmp/wt_$tag
