#!/bin/bash
# Run every registered check (quick by default) on the tree as it is and rewrite evidence/<id>.json.
cd /verif
tier=${1:-quick}
rc=0
for i in 01 02 03 04 05 06 07 08 09 10 11 12 13 14 15 16 17 18; do
  tools/vcheck C$i $tier 2>&1 | grep -E "^VIOLATION|^KNOWN|held on|vcheck\] violation" | cut -c1-220
  [ ${PIPESTATUS[0]} -ne 0 ] && rc=1
done
exit $rc
