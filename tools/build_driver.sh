#!/bin/bash
# Re-extract the model and rebuild the OCaml driver (called by vcheck when the model changed).
set -e
cd /verif
mkdir -p build/extract build/ocaml
( cd build/extract && coqc -Q /verif/coq Walleye /verif/coq/Extract/Extract.v >/dev/null )
cp build/extract/walleye_model.ml build/extract/walleye_model.mli ocaml/driver_ext.ml ocaml/driver.ml build/ocaml/
( cd build/ocaml && ocamlfind ocamlopt -w -a -O3 walleye_model.mli walleye_model.ml driver_ext.ml driver.ml -o driver.new 2>&1 && mv driver.new driver )
