#!/usr/bin/env python3
"""vcheck <property id> <quick|thorough> -- decide one property of Walleye.

1. regenerate coq/Gen/*.v from /repo's current source (translator + zdump), rebuild the Rust
   harness from /repo/src, (re)build the Coq development and the extracted OCaml driver;
2. check the property's theorems (compiled by coqc now, Print Assumptions against an allowlist,
   forbidden-word scan);
3. correspondence: run implementation (harness, `I`/`P` lines) and model/specification
   (driver, `M`/`S` lines) on the same generated cases and compare;
4. black-box part on the real binary where the property has one;
5. verdict (DESIGN.md section 7) and evidence/<id>.json.
"""
import fcntl
import json
import os
import random
import re
import subprocess
import sys
import time

VERIF = os.path.dirname(os.path.dirname(os.path.abspath(__file__)))
sys.path.insert(0, os.path.join(VERIF, "tools"))
REPO = "/repo"
BUILD = os.path.join(VERIF, "build")
COQ = os.path.join(VERIF, "coq")
HARNESS = os.path.join(BUILD, "cargo", "debug", "walleye-verif-harness")
DRIVER = os.path.join(BUILD, "ocaml", "driver")
ZDUMP = os.path.join(BUILD, "zdump.txt")
BINARY = os.path.join(BUILD, "cargo-bin", "release", "walleye")

FORBIDDEN = re.compile(r"\b(Admitted|admit|Axiom|Parameter|Conjecture|Unset Guard|bypass_check|type-in-type|impredicative-set|Admit Obligations)\b")
CLOSED = "Closed under the global context"

ENV = dict(os.environ)
ENV["CARGO_NET_OFFLINE"] = "true"
ENV["RUSTFLAGS"] = "--cfg walleye_verif -A warnings"


def log(msg):
    print("[vcheck] " + msg, flush=True)


def sh(cmd, timeout=1800, cwd=None, env=None, inp=None):
    t0 = time.time()
    try:
        p = subprocess.run(cmd, shell=isinstance(cmd, str), cwd=cwd, env=env or ENV, input=inp,
                           capture_output=True, text=True, timeout=timeout)
        return p.returncode, p.stdout, p.stderr, time.time() - t0
    except subprocess.TimeoutExpired as e:
        return 124, (e.stdout or b"").decode() if isinstance(e.stdout, bytes) else (e.stdout or ""), "TIMEOUT", time.time() - t0


class Prep:
    """result of the shared build step"""

    def __init__(self):
        self.tie_ok = True
        self.tie_msg = ""
        self.harness_ok = True
        self.coq_log = ""
        self.driver_ok = True
        self.notes = []


def write_if_changed(path, text):
    old = None
    if os.path.exists(path):
        with open(path) as f:
            old = f.read()
    if old != text:
        os.makedirs(os.path.dirname(path), exist_ok=True)
        with open(path, "w") as f:
            f.write(text)
        return True
    return False


def gen_zobrist_v():
    """coq/Gen/ZobristTable.v from the running hasher's getters (harness zdump)"""
    rc, out, err, _ = sh([HARNESS, "zdump"], timeout=60)
    if rc != 0:
        return False
    write_if_changed(ZDUMP, out)
    piece = {}
    black = None
    castle = {}
    ep = {}
    for l in out.split("\n"):
        t = l.split(" ")
        if t[0] == "piece":
            piece[(t[1], t[2], int(t[3]), int(t[4]))] = int(t[5], 16)
        elif t[0] == "black":
            black = int(t[1], 16)
        elif t[0] == "castle":
            castle[t[1]] = int(t[2], 16)
        elif t[0] == "ep":
            ep[int(t[1])] = int(t[2], 16)
    kinds = [("P", "Pawn"), ("N", "Knight"), ("B", "Bishop"), ("R", "Rook"), ("Q", "Queen"), ("K", "King")]
    o = ["(* GENERATED from the running ZobristHasher's getters (harness zdump) -- do not edit. *)\n",
         "From Coq Require Import List ZArith NArith.\nImport ListNotations.\nFrom Walleye Require Import Model.Prim Model.Zobrist.\nOpen Scope N_scope.\n\n"]
    for cn, cname in (("w", "White"), ("b", "Black")):
        for kn, kname in kinds:
            vals = [piece[(cn, kn, r, c)] for r in range(12) for c in range(12)]
            o.append("Definition zp_%s_%s : list N := [%s].\n" % (cname, kname, "; ".join(str(v) for v in vals)))
    o.append("Definition zp_table (pc : piece) : list N :=\n  match pcolor pc, pkind pc with\n")
    for cn, cname in (("w", "White"), ("b", "Black")):
        for kn, kname in kinds:
            o.append("  | %s, %s => zp_%s_%s\n" % (cname, kname, cname, kname))
    o.append("  end.\n")
    o.append("Definition zep_table : list N := [%s].\n" % "; ".join(str(ep[i]) for i in range(12)))
    o.append("Definition zt_concrete : ztable :=\n  mkZ (fun pc p => nth (Z.to_nat (12 * fst p + snd p)) (zp_table pc) 0)\n      %d\n      (fun c => match c with WKS => %d | WQS => %d | BKS => %d | BQS => %d end)\n      (fun f => nth (Z.to_nat f) zep_table 0).\n" % (
        black, castle["WKS"], castle["WQS"], castle["BKS"], castle["BQS"]))
    write_if_changed(os.path.join(COQ, "Gen", "ZobristTable.v"), "".join(o))
    return True


def newest_mtime(paths):
    m = 0
    for p in paths:
        if os.path.exists(p):
            m = max(m, os.path.getmtime(p))
    return m


def prepare(need_binary=False):
    os.makedirs(BUILD, exist_ok=True)
    prep = Prep()
    lock = open(os.path.join(BUILD, ".lock"), "w")
    fcntl.flock(lock, fcntl.LOCK_EX)
    try:
        # 1. translator
        rc, out, err, _ = sh([sys.executable, os.path.join(VERIF, "tools", "extract_consts.py")], timeout=60)
        if rc != 0:
            prep.tie_ok = False
            prep.tie_msg = (out + err).strip()
            log("translator: " + prep.tie_msg)
        # 2. harness from /repo/src as it is now
        lockfile = os.path.join(VERIF, "harness", "Cargo.lock")
        if not os.path.exists(lockfile):
            sh("cp %s/Cargo.lock %s" % (REPO, lockfile))
        rc, out, err, dt = sh("cargo build --offline", cwd=os.path.join(VERIF, "harness"), timeout=900)
        if rc != 0:
            prep.harness_ok = False
            prep.notes.append("harness build failed: " + err[-2000:])
            log("harness build failed")
        else:
            if not gen_zobrist_v():
                prep.harness_ok = False
        if need_binary:
            rc, out, err, dt = sh("cargo build --release --offline --target-dir %s" % os.path.join(BUILD, "cargo-bin"),
                                  cwd=REPO, timeout=900, env={k: v for k, v in ENV.items() if k != "RUSTFLAGS"})
            if rc != 0:
                prep.notes.append("release binary build failed: " + err[-2000:])
        # 3. Coq
        if not os.path.exists(os.path.join(COQ, "Makefile")) or \
                os.path.getmtime(os.path.join(COQ, "Makefile")) < os.path.getmtime(os.path.join(COQ, "_CoqProject")):
            sh("coq_makefile -f _CoqProject -o Makefile", cwd=COQ)
        rc, out, err, dt = sh("make -k -j16 COQC='timeout 900 coqc'", cwd=COQ, timeout=2400)
        prep.coq_log = out + err
        if rc != 0:
            log("coq build: some targets failed (%.0fs)" % dt)
        # 4. extraction + driver when the model is newer than the driver
        srcs = [os.path.join(COQ, d, f) for d in ("Model", "Spec", "Gen", "Extract") for f in os.listdir(os.path.join(COQ, d)) if f.endswith(".vo") or f == "Extract.v"]
        srcs += [os.path.join(VERIF, "ocaml", f) for f in os.listdir(os.path.join(VERIF, "ocaml"))]
        if not os.path.exists(DRIVER) or os.path.getmtime(DRIVER) < newest_mtime(srcs):
            rc, out, err, dt = sh(os.path.join(VERIF, "tools", "build_driver.sh"), timeout=900)
            if rc != 0:
                prep.driver_ok = False
                prep.notes.append("driver build failed: " + (out + err)[-2000:])
                log("driver build failed: " + (out + err)[-500:])
    finally:
        fcntl.flock(lock, fcntl.LOCK_UN)
        lock.close()
    return prep


# ------------------------------------------------------------------ theorems
def check_theorems(prop_file, theorems, allow_axioms=()):
    """compile Properties/<file> now; return (ok, details, assumptions_text)"""
    details = []
    path = os.path.join(COQ, "Properties", prop_file)
    if not os.path.exists(path):
        return False, ["missing " + prop_file], ""
    # forbidden words anywhere in the development
    bad = []
    for root, _, files in os.walk(COQ):
        for f in files:
            if f.endswith(".v"):
                with open(os.path.join(root, f)) as fh:
                    txt = fh.read()
                txt = re.sub(r"\(\*.*?\*\)", "", txt, flags=re.S)
                for m in FORBIDDEN.finditer(txt):
                    bad.append("%s: %s" % (os.path.relpath(os.path.join(root, f), COQ), m.group(1)))
    if bad:
        return False, ["forbidden: " + ", ".join(bad[:5])], ""
    vo = path[:-2] + ".vo"
    rc, out, err, dt = sh("make COQC='timeout 900 coqc' %s" % os.path.relpath(vo, COQ), cwd=COQ, timeout=1800)
    if rc != 0:
        m = re.search(r'File "([^"]+)", line (\d+).*?\n(Error:.*?)(?:\n\n|\Z)', out + err, re.S)
        where = "%s line %s: %s" % (m.group(1), m.group(2), m.group(3)[:300].replace("\n", " ")) if m else (out + err)[-400:]
        return False, ["proof does not check: " + where], ""
    rc, out, err, dt = sh("coqc -Q . Walleye -w -notation-overridden,-deprecated-hint-without-locality Properties/%s" % prop_file, cwd=COQ, timeout=900)
    if rc != 0:
        return False, ["property file does not compile: " + (out + err)[-400:]], ""
    txt = out
    # every theorem must be stated in the file and closed by Qed
    with open(path) as fh:
        src = fh.read()
    ok = True
    for th in theorems:
        if not re.search(r"\b(Theorem|Lemma)\s+%s\b" % re.escape(th), src):
            ok = False
            details.append("theorem %s is not stated" % th)
        if not re.search(r"Print Assumptions\s+%s\s*\." % re.escape(th), src):
            ok = False
            details.append("no Print Assumptions for %s" % th)
    # Print Assumptions output: either closed or only allowlisted axioms
    blocks = re.split(r"\n(?=Closed under the global context|Axioms:)", "\n" + txt)
    n_closed = txt.count(CLOSED)
    axioms = [a for a in re.findall(r"^([A-Za-z_][\w.']*)\s*(?::|$)", "\n".join(b for b in blocks if b.startswith("Axioms:")), re.M)
              if a != "Axioms"]
    for a in axioms:
        if a not in allow_axioms:
            ok = False
            details.append("axiom outside the allowlist: " + a)
    n_ax_blocks = sum(1 for b in blocks if b.startswith("Axioms:"))
    if n_closed + n_ax_blocks < len(theorems):
        ok = False
        details.append("Print Assumptions reported %d results for %d theorems" % (n_closed + n_ax_blocks, len(theorems)))
    assum = "closed under the global context" if not axioms else "axioms: " + ", ".join(sorted(set(axioms)))
    return ok, details, assum


# ------------------------------------------------------------------ running cases
def run_sharded(binary_args, lines, shards=16, timeout=1800):
    import threading
    if not lines:
        return []
    n = max(1, (len(lines) + shards - 1) // shards)
    chunks = [lines[i:i + n] for i in range(0, len(lines), n)]
    outs = [None] * len(chunks)
    errs = [None] * len(chunks)

    def work(i, c):
        try:
            p = subprocess.run(binary_args, input="\n".join(c) + "\n", capture_output=True, text=True, timeout=timeout, env=ENV)
            outs[i] = p.stdout
            errs[i] = (p.returncode, p.stderr[-300:])
        except subprocess.TimeoutExpired:
            outs[i] = ""
            errs[i] = (124, "timeout")

    ths = [threading.Thread(target=work, args=(i, c)) for i, c in enumerate(chunks)]
    for t in ths:
        t.start()
    for t in ths:
        t.join()
    res = []
    for i, o in enumerate(outs):
        if errs[i][0] != 0:
            res.append("X shard-failed rc=%s %s" % errs[i])
        res.extend(l for l in (o or "").split("\n") if l)
    return res


def run_cases(cases):
    """cases: list of case lines.  Returns per-case dicts with I, P, M, S (and O)"""
    hout = run_sharded([HARNESS], cases)
    # search cases need the order log of the implementation run
    res = [dict(case=c) for c in cases]
    i = -1
    for l in hout:
        tag, body = l[:1], l[2:]
        if tag == "I":
            i += 1
        if 0 <= i < len(res) and tag in "IPO":
            res[i][tag] = body
    dcases = []
    for r in res:
        c = r["case"]
        if c.startswith("search\t"):
            c = c + "\t" + r.get("O", "")
        dcases.append(c)
    dout = run_sharded([DRIVER, ZDUMP], dcases)
    i = -1
    for l in dout:
        tag, body = l[:1], l[2:]
        if tag == "M":
            i += 1
        if 0 <= i < len(res) and tag in "MS":
            res[i][tag] = body
    return res


def first_diff(a, b):
    if a is None or b is None:
        return "missing output"
    n = min(len(a), len(b))
    k = next((j for j in range(n) if a[j] != b[j]), n)
    return "at char %d: ...%s  VERSUS  ...%s" % (k, a[max(0, k - 60):k + 100], b[max(0, k - 60):k + 100])


def compare(results, use_model=True, use_spec=True, model_filter=None, spec_filter=None):
    """returns (model_mismatches, spec_mismatches); filters map a line to its property-relevant part"""
    mm, sm = [], []
    for r in results:
        if use_model:
            a, b = r.get("I"), r.get("M")
            if model_filter:
                a, b = model_filter(a), model_filter(b)
            if a is None or b is None or a != b:
                mm.append(r)
        if use_spec:
            a, b = r.get("P"), r.get("S")
            if spec_filter:
                a, b = spec_filter(a), spec_filter(b)
            if a is None or b is None or a != b:
                sm.append(r)
    return mm, sm


# ------------------------------------------------------------------ known findings, verdict, evidence
def load_known():
    known = []
    p = os.path.join(VERIF, "known_findings.txt")
    if os.path.exists(p):
        for l in open(p):
            l = l.strip()
            m = re.match(r"known:\s+property=(\S+)\s+class=(\S+)\s+(.*)", l)
            if m:
                known.append((m.group(1), m.group(2), m.group(3)))
    return known


class Outcome:
    def __init__(self, pid, tier, seed):
        self.pid = pid
        self.tier = tier
        self.seed = seed
        self.t0 = time.time()
        self.obligations = []        # (name, discharged bool, note)
        self.evaluations = 0
        self.distinct = 0
        self.rule = ""
        self.samples = []
        self.traces = 0
        self.hist = {}
        self.violations = []         # (kind, description, replay dict, witness_class)
        self.assumptions = []
        self.trusted = []
        self.checker_cmd = ""
        self.extra = {}

    def oblige(self, name, ok, note=""):
        self.obligations.append((name, bool(ok), note))

    def violation(self, kind, desc, replay, wclass=None):
        self.violations.append((kind, desc, replay, wclass))


TRUSTED_BASE = [
    "Coq 8.16.1 kernel and vm_compute (finite sweeps lifted by forallb_forall); no native_compute",
    "tools/extract_consts.py (regex translator regenerating coq/Gen/Consts.v from /repo/src on every run)",
    "harness zdump -> coq/Gen/ZobristTable.v and build/zdump.txt (the running hasher's getters)",
    "extraction: ExtrOcamlBasic only (bool, option, list, prod, unit, sumbool); Z, N, positive, nat stay inductive; no Extract Constant",
    "ocaml/driver.ml parser/printer, harness/src/main.rs (catch_unwind, canonical printing), tools/vcheck.py comparison",
    "Rust std (HashMap, mpsc FIFO, Instant monotonic, str::parse, char predicates, sort = sorted permutation), IEEE-754 for f64",
    "control logic is modelled by hand (coq/Model/*.v) and tied to /repo/src by the correspondence check, not translated",
]


def finish(o):
    known = load_known()
    lines = []
    fresh = []
    for kind, desc, replay, wclass in o.violations:
        hit = [k for k in known if k[0] == o.pid and wclass is not None and k[1] == wclass]
        if hit:
            lines.append("KNOWN-FINDING: property=%s %s" % (o.pid, hit[0][2]))
        else:
            fresh.append((kind, desc, replay, wclass))
    for l in sorted(set(lines)):
        print(l)
    n_obl = len(o.obligations)
    n_dis = sum(1 for _, ok, _ in o.obligations if ok)
    ev = {
        "property_id": o.pid,
        "tier": o.tier,
        "seed": o.seed,
        "level": "proof",
        "coverage": {
            "obligations": max(1, n_obl),
            "discharged": n_dis,
            "checker_cmd": o.checker_cmd,
            "trusted_base": TRUSTED_BASE + o.trusted,
            "obligation_list": [{"name": n, "discharged": ok, "note": note} for n, ok, note in o.obligations],
            "evaluations": o.evaluations,
            "distinct_nontrivial": o.distinct,
            "rule": o.rule,
            "samples": o.samples[:12] if o.samples else ["(no generated case in this run)"],
            "traces_validated_against_impl": o.traces,
            "input_distribution": o.hist,
        },
        "assumptions": o.assumptions,
        "wall_s": round(time.time() - o.t0, 2),
        "violations": len(fresh),
    }
    ev["coverage"].update(o.extra)
    # VERIF_EVIDENCE_DIR: only for experiments on deliberately broken trees (seeded changes), so that they do
    # not overwrite the evidence of the unchanged tree; the registered commands never set it
    evdir = os.environ.get("VERIF_EVIDENCE_DIR") or os.path.join(VERIF, "evidence")
    os.makedirs(evdir, exist_ok=True)
    with open(os.path.join(evdir, o.pid + ".json"), "w") as f:
        json.dump(ev, f, indent=1, sort_keys=True)
    if not fresh:
        log("%s %s: %d/%d obligations discharged, %d cases, %.1fs -- property held on everything explored" % (
            o.pid, o.tier, n_dis, n_obl, o.evaluations, time.time() - o.t0))
        return 0
    # one replay file, the concrete failing input first
    fresh.sort(key=lambda v: 0 if v[0] == "input" else 1)
    kind, desc, replay, _ = fresh[0]
    os.makedirs(os.path.join(BUILD, "replay"), exist_ok=True)
    rp = os.path.join(BUILD, "replay", "%s_%s_%d.json" % (o.pid, o.tier, o.seed))
    with open(rp, "w") as f:
        json.dump({"property": o.pid, "kind": kind, "what": desc, "replay": replay,
                   "all": [{"kind": k, "what": d, "replay": r} for k, d, r, _ in fresh[:20]]}, f, indent=1)
    for k, d, r, _ in fresh[:5]:
        log("violation (%s): %s" % (k, d[:600]))
    if kind == "input":
        print("VIOLATION property=%s replay=%s" % (o.pid, rp))
    else:
        print("VIOLATION property=%s replay=%s no-failing-input-found" % (o.pid, rp))
    return 1


def main():
    if len(sys.argv) < 3:
        print("usage: vcheck <property id> <quick|thorough> [--replay file]")
        return 2
    pid, tier = sys.argv[1], sys.argv[2]
    seed = int(os.environ.get("VERIF_SEED", "1") or "1")
    import props
    if "--replay" in sys.argv:
        return props.replay(pid, sys.argv[sys.argv.index("--replay") + 1])
    if pid not in props.PROPS:
        print("unknown property " + pid)
        return 2
    spec = props.PROPS[pid]
    o = Outcome(pid, tier, seed)
    prep = prepare(need_binary=spec.get("binary", False))
    rng = random.Random(seed * 1000003 + int(pid[1:]))
    # tie
    o.oblige("translator: coq/Gen/Consts.v regenerated from /repo/src", prep.tie_ok, prep.tie_msg)
    if not prep.tie_ok:
        o.violation("tie", "translator could not regenerate the constants: " + prep.tie_msg, {"translator": prep.tie_msg})
    if not prep.harness_ok:
        o.violation("tie", "the harness does not build against /repo/src: " + " ".join(prep.notes)[:500], {"build": prep.notes})
    if not prep.driver_ok:
        o.violation("tie", "the model no longer compiles/extracts: " + " ".join(prep.notes)[:500], {"build": prep.notes})
    # theorems
    ok, details, assum = check_theorems(spec["file"], spec["theorems"], spec.get("axioms", ()))
    o.checker_cmd = "cd /verif/coq && make Properties/%s.vo && coqc -Q . Walleye Properties/%s  (coqchk -o in the thorough tier)" % (spec["file"][:-2], spec["file"])
    for th in spec["theorems"]:
        o.oblige("theorem " + th, ok, assum)
    if not ok:
        o.violation("proof", "theorems of %s no longer check: %s" % (spec["file"], "; ".join(details)), {"theorems": spec["theorems"], "details": details})
    o.trusted.append("Print Assumptions for %s: %s" % (", ".join(spec["theorems"]), assum))
    if tier == "thorough" and ok:
        rc, out, err, dt = sh("coqchk -o -silent -Q . Walleye Walleye.Properties.%s" % spec["file"][:-2], cwd=COQ, timeout=3000)
        good = rc == 0
        ax = re.findall(r"^\s+([A-Za-z_][\w.']*)\s*$", (out + err).split("Axioms:")[-1], re.M) if "Axioms:" in (out + err) else []
        # coqchk prints fully qualified names (Coq.Logic.Classical_Prop.classic); compare by suffix
        allow = spec.get("axioms", ())
        ax = [a for a in ax if not any(a == b or a.endswith("." + b) for b in allow)]
        good = good and not ax
        o.oblige("coqchk re-check of Properties/" + spec["file"], good, (out + err)[-300:])
        if not good:
            o.violation("proof", "coqchk rejects or reports axioms: " + (out + err)[-400:], {"coqchk": (out + err)[-2000:]})
    # correspondence + black box, property specific
    if prep.harness_ok and prep.driver_ok:
        spec["run"](o, tier, rng, prep)
    elif pid in ("C03", "C08", "C17"):
        # nothing can be run in-process: the properties about answering still get a hunt on the binary alone
        import props
        props.liveness_hunt(o)
    return finish(o)


if __name__ == "__main__":
    sys.exit(main())
