#!/bin/bash
# Build the whole framework from files on disk (offline): harness, generated Coq files,
# the Coq development, the extracted driver and the release binary used by the black-box parts.
set -e
cd /verif
export CARGO_NET_OFFLINE=true
mkdir -p build
cp /repo/Cargo.lock harness/Cargo.lock
python3 tools/extract_consts.py
( cd harness && RUSTFLAGS="--cfg walleye_verif -A warnings" cargo build --offline 2>&1 | tail -2 )
python3 - <<'PY'
import sys
sys.path.insert(0, "/verif/tools")
import vcheck
vcheck.gen_zobrist_v()
PY
( cd coq && coq_makefile -f _CoqProject -o Makefile > /dev/null && timeout 3000 make -k -j16 COQC='timeout 900 coqc' > ../build/coq_build.log 2>&1 || true; tail -3 ../build/coq_build.log )
tools/build_driver.sh
( cd /repo && env -u RUSTFLAGS cargo build --release --offline --target-dir /verif/build/cargo-bin 2>&1 | tail -1 )
echo "setup done"
