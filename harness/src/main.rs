// Verification harness: compiles /repo/src/*.rs as they are now (with --cfg walleye_verif)
// and runs them on generated cases, one case per stdin line, printing canonical lines.
#![allow(dead_code, unused_imports, clippy::all)]

#[path = "/repo/src/board.rs"]
mod board;
#[path = "/repo/src/draw_table.rs"]
mod draw_table;
#[path = "/repo/src/engine.rs"]
mod engine;
#[path = "/repo/src/evaluation.rs"]
mod evaluation;
#[path = "/repo/src/move_generation.rs"]
mod move_generation;
#[path = "/repo/src/search.rs"]
mod search;
#[path = "/repo/src/time_control.rs"]
mod time_control;
#[path = "/repo/src/uci.rs"]
mod uci;
#[path = "/repo/src/utils.rs"]
mod utils;
#[path = "/repo/src/zobrist.rs"]
mod zobrist;

use board::{BoardState, Piece, PieceColor, PieceKind, Point, Square};
use draw_table::DrawTable;
use move_generation::{generate_moves, is_check, CastlingType, MoveGenerationMode};
use std::io::{self, BufRead, Write};
use std::panic::{catch_unwind, AssertUnwindSafe};
use zobrist::ZobristHasher;

fn piece_char(p: Piece) -> char {
    let c = match p.kind {
        PieceKind::Pawn => 'p',
        PieceKind::Knight => 'n',
        PieceKind::Bishop => 'b',
        PieceKind::Rook => 'r',
        PieceKind::Queen => 'q',
        PieceKind::King => 'k',
    };
    if p.color == PieceColor::White {
        c.to_ascii_uppercase()
    } else {
        c
    }
}

fn sq_char(s: Square) -> char {
    match s {
        Square::Empty => '.',
        Square::Boundary => 'x',
        Square::Full(p) => piece_char(p),
    }
}

fn pt(p: Point) -> String {
    format!("{},{}", p.0, p.1)
}

// full record of a BoardState, every field
fn rec(b: &BoardState) -> String {
    let mut cells = String::with_capacity(144);
    for r in 0..12 {
        for c in 0..12 {
            cells.push(sq_char(b.board[r][c]));
        }
    }
    format!(
        "{}|{}|{}|{}|{}|{}{}{}{}|{}|{}|{}|{:016x}",
        cells,
        if b.to_move == PieceColor::White { "w" } else { "b" },
        match b.pawn_double_move {
            Some(p) => pt(p),
            None => "-".to_string(),
        },
        pt(b.white_king_location),
        pt(b.black_king_location),
        b.white_king_side_castle as u8,
        b.white_queen_side_castle as u8,
        b.black_king_side_castle as u8,
        b.black_queen_side_castle as u8,
        b.order_heuristic,
        match b.last_move {
            Some((a, c)) => format!("{},{}", pt(a), pt(c)),
            None => "-".to_string(),
        },
        match b.pawn_promotion {
            Some(p) => piece_char(p).to_string(),
            None => "-".to_string(),
        },
        b.zobrist_key
    )
}

// rules-level projection: placement a1..h8, side, rights, ep square (file,rank), key
fn proj(b: &BoardState) -> String {
    let mut pl = String::with_capacity(64);
    for rank in 0..8usize {
        for file in 0..8usize {
            let s = b.board[9 - rank][file + 2];
            pl.push(match s {
                Square::Full(p) => piece_char(p),
                _ => '.',
            });
        }
    }
    format!(
        "{}/{}/{}{}{}{}/{}#{:016x}",
        pl,
        if b.to_move == PieceColor::White { "w" } else { "b" },
        b.white_king_side_castle as u8,
        b.white_queen_side_castle as u8,
        b.black_king_side_castle as u8,
        b.black_queen_side_castle as u8,
        match b.pawn_double_move {
            Some(p) => format!("{},{}", p.1 as i64 - 2, 9 - p.0 as i64),
            None => "-".to_string(),
        },
        b.zobrist_key
    )
}

fn uci_text(b: &BoardState) -> String {
    match (b.last_move, b.pawn_promotion) {
        (Some((a, c)), Some(p)) => format!("{}{}{}", a, c, p.kind.alg()),
        (Some((a, c)), None) => format!("{}{}", a, c),
        _ => "none".to_string(),
    }
}

// the text the engine itself prints after "bestmove ", through the real printing code
fn bestmove_text(b: &BoardState) -> String {
    arm_capture();
    let r = catch_unwind(AssertUnwindSafe(|| uci::verif_send_best_move_to_gui(b)));
    let lines = take_capture();
    match r {
        Ok(()) => lines
            .get(0)
            .map(|l| l.trim_start_matches("bestmove ").to_string())
            .unwrap_or_else(|| "noline".to_string()),
        Err(_) => "PANIC".to_string(),
    }
}

fn arm_capture() {
    utils::verif::STATE.with(|s| s.borrow_mut().lines = Some(Vec::new()));
}
fn take_capture() -> Vec<String> {
    utils::verif::STATE.with(|s| s.borrow_mut().lines.take().unwrap_or_default())
}

fn decode_hex_string(h: &str) -> Option<String> {
    // comma separated hexadecimal scalar values; "" is the empty string
    let mut out = String::new();
    if h.is_empty() {
        return Some(out);
    }
    for t in h.split(',') {
        let v = u32::from_str_radix(t, 16).ok()?;
        out.push(char::from_u32(v)?);
    }
    Some(out)
}

fn checks(b: &BoardState) -> String {
    let w = catch_unwind(AssertUnwindSafe(|| is_check(b, PieceColor::White)));
    let k = catch_unwind(AssertUnwindSafe(|| is_check(b, PieceColor::Black)));
    let f = |r: std::thread::Result<bool>| match r {
        Ok(true) => "1",
        Ok(false) => "0",
        Err(_) => "P",
    };
    format!("{}{}", f(w), f(k))
}

fn table_dump(t: &DrawTable) -> String {
    let mut v: Vec<(u64, u8)> = t.table.iter().map(|(k, c)| (*k, *c)).collect();
    v.sort();
    v.iter()
        .map(|(k, c)| format!("{:016x}:{}", k, c))
        .collect::<Vec<_>>()
        .join(",")
}

// the record as a lookup function: entries with count 0 are the same as absent entries
fn table_dump_nz(t: &DrawTable) -> String {
    let mut v: Vec<(u64, u8)> = t.table.iter().map(|(k, c)| (*k, *c)).filter(|(_, c)| *c != 0).collect();
    v.sort();
    v.iter()
        .map(|(k, c)| format!("{:016x}:{}", k, c))
        .collect::<Vec<_>>()
        .join(",")
}

fn counts_dump(t: &DrawTable) -> String {
    let mut v: Vec<u8> = t.table.values().cloned().filter(|c| *c != 0).collect();
    v.sort();
    v.iter().map(|c| c.to_string()).collect::<Vec<_>>().join(",")
}

fn follow_chain(
    root: &BoardState,
    chain: &str,
    mode: MoveGenerationMode,
    z: &ZobristHasher,
) -> Result<BoardState, String> {
    let mut cur = root.clone();
    for mv in chain.split(' ').filter(|m| !m.is_empty()) {
        let succ = generate_moves(&cur, mode, z);
        match succ.iter().find(|s| uci_text(s) == mv) {
            Some(s) => cur = s.clone(),
            None => return Err(format!("nochain:{}", mv)),
        }
    }
    Ok(cur)
}

fn do_gen(fields: &[&str], z: &ZobristHasher, out: &mut dyn Write) {
    // gen <A|C> <fen> <chain>
    let mode = if fields[1] == "C" {
        MoveGenerationMode::CapturesOnly
    } else {
        MoveGenerationMode::AllMoves
    };
    let fen = fields[2];
    let chain = if fields.len() > 3 { fields[3] } else { "" };
    let r = catch_unwind(AssertUnwindSafe(|| -> Result<(String, String), String> {
        let root = BoardState::from_fen(fen).map_err(|_| "badfen".to_string())?;
        // the chain is always followed through full generation except in capture mode,
        // where it is followed through capture-only generation (as quiescence does)
        let cur = follow_chain(&root, chain, mode, z)?;
        let succ = generate_moves(&cur, mode, z);
        let i = format!(
            "gen root={} chk={} n={} succ={}",
            rec(&cur),
            checks(&cur),
            succ.len(),
            succ.iter()
                .map(|s| format!("{}@{}", rec(s), bestmove_text(s)))
                .collect::<Vec<_>>()
                .join(";")
        );
        let mut ms: Vec<String> = succ
            .iter()
            .map(|s| format!("{}={}", uci_text(s), proj(s)))
            .collect();
        ms.sort();
        let p = format!("gen root={} chk={} moves={}", proj(&cur), checks(&cur), ms.join(","));
        Ok((i, p))
    }));
    match r {
        Ok(Ok((i, p))) => {
            writeln!(out, "I {}", i).unwrap();
            writeln!(out, "P {}", p).unwrap();
        }
        Ok(Err(e)) => {
            writeln!(out, "I gen {}", e).unwrap();
            writeln!(out, "P gen {}", e).unwrap();
        }
        Err(_) => {
            writeln!(out, "I gen PANIC").unwrap();
            writeln!(out, "P gen PANIC").unwrap();
        }
    }
}

fn do_replay(fields: &[&str], z: &ZobristHasher, out: &mut dyn Write) {
    // replay <fen> <chain>: every generated move, printed as text and replayed through make_move
    let fen = fields[1];
    let chain = if fields.len() > 2 { fields[2] } else { "" };
    let r = catch_unwind(AssertUnwindSafe(|| -> Result<(usize, Vec<String>), String> {
        let root = BoardState::from_fen(fen).map_err(|_| "badfen".to_string())?;
        let cur = follow_chain(&root, chain, MoveGenerationMode::AllMoves, z)?;
        let succ = generate_moves(&cur, MoveGenerationMode::AllMoves, z);
        let mut bad = Vec::new();
        for s in succ.iter() {
            let text = bestmove_text(s);
            let mut b2 = cur.clone();
            let ok = catch_unwind(AssertUnwindSafe(|| uci::verif_make_move(&mut b2, &text, z))).is_ok();
            let same = ok
                && proj(&b2) == proj(s)
                && b2.white_king_location == s.white_king_location
                && b2.black_king_location == s.black_king_location;
            if !same {
                bad.push(format!("{}:{}!={}", text, if ok { proj(&b2) } else { "PANIC".to_string() }, proj(s)));
            }
        }
        Ok((succ.len(), bad))
    }));
    match r {
        Ok(Ok((n, bad))) => {
            writeln!(out, "I replay n={} bad={}", n, bad.join(",")).unwrap();
            writeln!(out, "P replay bad={}", bad.join(",")).unwrap();
        }
        Ok(Err(e)) => {
            writeln!(out, "I replay {}", e).unwrap();
            writeln!(out, "P replay {}", e).unwrap();
        }
        Err(_) => {
            writeln!(out, "I replay PANIC").unwrap();
            writeln!(out, "P replay PANIC").unwrap();
        }
    }
}

fn do_fen(fields: &[&str], out: &mut dyn Write) {
    let s = match decode_hex_string(fields[1]) {
        Some(s) => s,
        None => {
            writeln!(out, "I fen BADCASE").unwrap();
            writeln!(out, "P fen BADCASE").unwrap();
            return;
        }
    };
    let r = catch_unwind(AssertUnwindSafe(|| match BoardState::from_fen(&s) {
        Ok(b) => (format!("fen Ok {}", rec(&b)), format!("fen Ok {}", proj(&b))),
        Err(_) => ("fen Err".to_string(), "fen Err".to_string()),
    }));
    match r {
        Ok((i, p)) => {
            writeln!(out, "I {}", i).unwrap();
            writeln!(out, "P {}", p).unwrap();
        }
        Err(_) => {
            writeln!(out, "I fen Panic").unwrap();
            writeln!(out, "P fen Panic").unwrap();
        }
    }
}

fn do_eval(fields: &[&str], out: &mut dyn Write) {
    let r = catch_unwind(AssertUnwindSafe(|| match BoardState::from_fen(fields[1]) {
        Ok(b) => {
            // the board, then the same board handed to the other side exactly as the null move does it
            // (a clone whose to_move is flipped and whose key is left alone), then the board once more
            let e = evaluation::get_evaluation(&b);
            let mut t = b.clone();
            t.to_move = b.to_move.opposite();
            let tw = evaluation::get_evaluation(&t);
            let again = evaluation::get_evaluation(&b);
            // the same placement and side with every other field of the record disturbed
            let mut d = b.clone();
            d.white_king_location = Point(0, 0);
            d.black_king_location = Point(11, 11);
            d.order_heuristic = 12345;
            d.last_move = Some((Point(2, 2), Point(9, 9)));
            d.pawn_double_move = None;
            d.white_king_side_castle = !b.white_king_side_castle;
            d.black_queen_side_castle = !b.black_queen_side_castle;
            d.zobrist_key = b.zobrist_key ^ 0x5555_aaaa_5555_aaaa;
            let other = evaluation::get_evaluation(&d);
            format!("eval {} twin {} again {} fields {}", e, tw, again, other)
        }
        Err(_) => "eval badfen".to_string(),
    }));
    let i = r.unwrap_or_else(|_| "eval PANIC".to_string());
    writeln!(out, "I {}", i).unwrap();
    writeln!(out, "P {}", i).unwrap();
}

fn do_chk(fields: &[&str], out: &mut dyn Write) {
    let r = catch_unwind(AssertUnwindSafe(|| match BoardState::from_fen(fields[1]) {
        Ok(b) => format!("chk {}", checks(&b)),
        Err(_) => "chk badfen".to_string(),
    }));
    let i = r.unwrap_or_else(|_| "chk PANIC".to_string());
    writeln!(out, "I {}", i).unwrap();
    writeln!(out, "P {}", i).unwrap();
}

fn do_pos(fields: &[&str], z: &ZobristHasher, out: &mut dyn Write) {
    // pos <position command, space separated tokens>
    let cmds: Vec<&str> = fields[1].split(' ').collect();
    let r = catch_unwind(AssertUnwindSafe(|| {
        let mut t = DrawTable::new();
        // a previous game's record must not leak into this one: start dirty, then clear as the dispatcher does
        t.table.insert(0x1234_5678_9abc_def0, 7);
        t.clear();
        let b = uci::verif_play_out_position(&cmds, z, &mut t);
        (
            format!("pos Ok {} table={}", rec(&b), table_dump(&t)),
            format!("pos Ok {} counts={}", proj(&b), counts_dump(&t)),
        )
    }));
    match r {
        Ok((i, p)) => {
            writeln!(out, "I {}", i).unwrap();
            writeln!(out, "P {}", p).unwrap();
        }
        Err(_) => {
            writeln!(out, "I pos Panic").unwrap();
            writeln!(out, "P pos Panic").unwrap();
        }
    }
}

fn do_roots(fields: &[&str], z: &ZobristHasher, out: &mut dyn Write) {
    // roots <position command>: the moves the search can choose from after this position command
    // roots <position command> C: the same in capture-only mode (what quiescence would generate at that root)
    let cmds: Vec<&str> = fields[1].split(' ').collect();
    let captures = fields.len() > 2 && fields[2] == "C";
    let r = catch_unwind(AssertUnwindSafe(|| {
        let mut t = DrawTable::new();
        let b = uci::verif_play_out_position(&cmds, z, &mut t);
        let mode = if captures { MoveGenerationMode::CapturesOnly } else { MoveGenerationMode::AllMoves };
        let mut ms: Vec<String> = generate_moves(&b, mode, z)
            .iter()
            .map(uci_text)
            .collect();
        ms.sort();
        format!("roots {}", ms.join(","))
    }));
    let i = r.unwrap_or_else(|_| "roots PANIC".to_string());
    writeln!(out, "I {}", i).unwrap();
    writeln!(out, "P {}", i).unwrap();
}

fn do_zdump(z: &ZobristHasher, out: &mut dyn Write) {
    let kinds = [
        (PieceKind::Pawn, "P"),
        (PieceKind::Knight, "N"),
        (PieceKind::Bishop, "B"),
        (PieceKind::Rook, "R"),
        (PieceKind::Queen, "Q"),
        (PieceKind::King, "K"),
    ];
    for (color, cn) in [(PieceColor::White, "w"), (PieceColor::Black, "b")] {
        for (kind, kn) in kinds.iter() {
            for r in 0..12 {
                for c in 0..12 {
                    writeln!(
                        out,
                        "piece {} {} {} {} {:016x}",
                        cn,
                        kn,
                        r,
                        c,
                        z.get_val_for_piece(Piece { color, kind: *kind }, Point(r, c))
                    )
                    .unwrap();
                }
            }
        }
    }
    writeln!(out, "black {:016x}", z.get_black_to_move_val()).unwrap();
    writeln!(out, "castle WKS {:016x}", z.get_val_for_castling(CastlingType::WhiteKingSide)).unwrap();
    writeln!(out, "castle WQS {:016x}", z.get_val_for_castling(CastlingType::WhiteQueenSide)).unwrap();
    writeln!(out, "castle BKS {:016x}", z.get_val_for_castling(CastlingType::BlackKingSide)).unwrap();
    writeln!(out, "castle BQS {:016x}", z.get_val_for_castling(CastlingType::BlackQueenSide)).unwrap();
    for f in 0..12 {
        writeln!(out, "ep {} {:016x}", f, z.get_val_for_en_passant(f)).unwrap();
    }
}

fn strip_time(line: &str) -> String {
    // drop the trailing " time T" of an info line (wall clock)
    match line.rfind(" time ") {
        Some(i) => line[..i].to_string(),
        None => line.to_string(),
    }
}

fn do_search(fields: &[&str], z: &ZobristHasher, out: &mut dyn Write) {
    // search <position command> <expiry k | inf>
    let cmds: Vec<&str> = fields[1].split(' ').collect();
    let expiry: u64 = if fields[2] == "inf" { u64::MAX } else { fields[2].parse().unwrap() };
    let r = catch_unwind(AssertUnwindSafe(|| {
        let mut t = DrawTable::new();
        let b = uci::verif_play_out_position(&cmds, z, &mut t);
        let before = table_dump_nz(&t);
        let (tx, rx) = std::sync::mpsc::channel();
        utils::verif::STATE.with(|s| {
            let mut s = s.borrow_mut();
            s.clock_armed = true;
            s.consulted = 0;
            s.expiry = expiry;
            s.lines = Some(Vec::new());
            s.orders = Some(Vec::new());
        });
        let start = std::time::Instant::now();
        let res = catch_unwind(AssertUnwindSafe(|| engine::get_best_move(&b, &mut t, start, 1, &tx)));
        let (consulted, lines, orders) = utils::verif::STATE.with(|s| {
            let mut s = s.borrow_mut();
            s.clock_armed = false;
            (s.consulted, s.lines.take().unwrap_or_default(), s.orders.take().unwrap_or_default())
        });
        drop(tx);
        let sends: Vec<String> = rx.try_iter().map(|s| format!("{}#{}", bestmove_text(&s), proj(&s))).collect();
        let after = table_dump_nz(&t);
        let infos: Vec<String> = lines.iter().map(|l| strip_time(l)).collect();
        let i = format!(
            "search panic={} consulted={} sends={} infos={} restored={}",
            res.is_err() as u8,
            consulted,
            sends.join(";"),
            infos.join("|"),
            (before == after) as u8
        );
        let o = orders.iter().map(|o| o.join(" ")).collect::<Vec<_>>().join(";");
        (i, o)
    }));
    match r {
        Ok((i, o)) => {
            writeln!(out, "I {}", i).unwrap();
            writeln!(out, "P {}", i).unwrap();
            writeln!(out, "O {}", o).unwrap();
        }
        Err(_) => {
            writeln!(out, "I search PANIC").unwrap();
            writeln!(out, "P search PANIC").unwrap();
            writeln!(out, "O ").unwrap();
        }
    }
}

fn do_slice(fields: &[&str], out: &mut dyn Write) {
    // slice <go command tokens> <w|b>
    let cmds: Vec<&str> = fields[1].split(' ').collect();
    let color = if fields[2] == "w" { PieceColor::White } else { PieceColor::Black };
    let r = catch_unwind(AssertUnwindSafe(|| {
        let gt = uci::verif_parse_go_command(&cmds);
        format!(
            "slice wtime={} btime={} winc={} binc={} mtg={} slice={}",
            gt.wtime,
            gt.btime,
            gt.winc,
            gt.binc,
            match gt.movestogo {
                Some(m) => m.to_string(),
                None => "-".to_string(),
            },
            gt.calculate_time_slice(color)
        )
    }));
    let i = r.unwrap_or_else(|_| "slice Panic".to_string());
    writeln!(out, "I {}", i).unwrap();
    writeln!(out, "P {}", i).unwrap();
}

fn hexs(s: &str) -> String {
    s.chars().map(|c| format!("{:x}", c as u32)).collect::<Vec<_>>().join(",")
}

fn do_clean(fields: &[&str], out: &mut dyn Write) {
    let s = decode_hex_string(fields[1]).unwrap_or_default();
    let r = catch_unwind(AssertUnwindSafe(|| format!("clean {}", hexs(&utils::clean_input(&s)))));
    let i = r.unwrap_or_else(|_| "clean Panic".to_string());
    writeln!(out, "I {}", i).unwrap();
    writeln!(out, "P {}", i).unwrap();
}

fn main() {
    // silence the default panic message; panics are reported in the canonical output
    std::panic::set_hook(Box::new(|_| {}));
    let args: Vec<String> = std::env::args().collect();
    let z = ZobristHasher::create_zobrist_hasher();
    let stdout = io::stdout();
    let mut out = io::BufWriter::new(stdout.lock());
    if args.len() > 1 && args[1] == "zdump" {
        do_zdump(&z, &mut out);
        return;
    }
    let stdin = io::stdin();
    for line in stdin.lock().lines() {
        let line = line.unwrap();
        if line.is_empty() {
            continue;
        }
        let fields: Vec<&str> = line.split('\t').collect();
        match fields[0] {
            "gen" => do_gen(&fields, &z, &mut out),
            "fen" => do_fen(&fields, &mut out),
            "replay" => do_replay(&fields, &z, &mut out),
            "eval" => do_eval(&fields, &mut out),
            "chk" => do_chk(&fields, &mut out),
            "pos" => do_pos(&fields, &z, &mut out),
            "roots" => do_roots(&fields, &z, &mut out),
            "search" => do_search(&fields, &z, &mut out),
            "slice" => do_slice(&fields, &mut out),
            "clean" => do_clean(&fields, &mut out),
            _ => {
                writeln!(out, "I unknown").unwrap();
                writeln!(out, "P unknown").unwrap();
            }
        }
    }
}
