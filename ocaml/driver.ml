(* Line-oriented driver around the extracted model and specification.
   Reads the same case lines as the Rust harness and prints, per case,
     M <model output>   (compared with the harness' I line)
     S <spec output>    (compared with the harness' P line)
   The Zobrist table is loaded at start from the harness' zdump (argv.(1)). *)
open Walleye_model

(* ---------- conversions between OCaml ints/strings and the extracted numbers *)
let rec pos_of_int n = if n = 1 then XH else if n land 1 = 0 then XO (pos_of_int (n lsr 1)) else XI (pos_of_int (n lsr 1))
let z_of_int n = if n = 0 then Z0 else if n > 0 then Zpos (pos_of_int n) else Zneg (pos_of_int (-n))
let n_of_int n = if n = 0 then N0 else Npos (pos_of_int n)
let rec int_of_pos = function XH -> 1 | XO p -> 2 * int_of_pos p | XI p -> 2 * int_of_pos p + 1
let int_of_z = function Z0 -> 0 | Zpos p -> int_of_pos p | Zneg p -> - (int_of_pos p)
let int_of_n = function N0 -> 0 | Npos p -> int_of_pos p
let rec int_of_nat = function O -> 0 | S n -> 1 + int_of_nat n
let rec nat_of_int n = if n <= 0 then O else S (nat_of_int (n - 1))

let n_of_hex (s : string) : n =
  let acc = ref None in
  String.iter (fun ch ->
      let v = int_of_string ("0x" ^ String.make 1 ch) in
      for i = 3 downto 0 do
        let b = (v lsr i) land 1 = 1 in
        acc := (match !acc with
                | None -> if b then Some XH else None
                | Some p -> Some (if b then XI p else XO p))
      done) s;
  match !acc with None -> N0 | Some p -> Npos p

let hex_of_n (x : n) : string =
  let rec bits = function XH -> [1] | XO p -> 0 :: bits p | XI p -> 1 :: bits p in
  let bs = match x with N0 -> [] | Npos p -> bits p in
  let a = Array.make 64 0 in
  List.iteri (fun i b -> if i < 64 then a.(i) <- b) bs;
  let buf = Buffer.create 16 in
  for d = 15 downto 0 do
    let v = a.(4*d) + 2 * a.(4*d+1) + 4 * a.(4*d+2) + 8 * a.(4*d+3) in
    Buffer.add_char buf "0123456789abcdef".[v]
  done;
  Buffer.contents buf

(* decimal strings <-> Z of any size *)
let z_ten = z_of_int 10
let z_of_dec (s : string) : z =
  let neg = String.length s > 0 && s.[0] = '-' in
  let body = if neg || (String.length s > 0 && s.[0] = '+') then String.sub s 1 (String.length s - 1) else s in
  let acc = ref Z0 in
  String.iter (fun ch -> acc := Z.add (Z.mul !acc z_ten) (z_of_int (Char.code ch - 48))) body;
  if neg then Z.opp !acc else !acc
let dec_of_z (x : z) : string =
  match x with
  | Z0 -> "0"
  | _ ->
    let neg = (match x with Zneg _ -> true | _ -> false) in
    let cur = ref (Z.abs x) in
    let digits = ref [] in
    while !cur <> Z0 do
      let (q, r) = Z.quotrem !cur z_ten in
      digits := (Char.chr (48 + int_of_z r)) :: !digits;
      cur := q
    done;
    (if neg then "-" else "") ^ (String.of_seq (List.to_seq !digits))

let str_of_string (s : string) : n list =
  (* the case files carry ASCII here; arbitrary Unicode goes through the hex form *)
  List.map (fun c -> n_of_int (Char.code c)) (List.of_seq (String.to_seq s))
let str_of_hexlist (s : string) : n list =
  if s = "" then [] else List.map (fun t -> n_of_int (int_of_string ("0x" ^ t))) (String.split_on_char ',' s)
let hexlist_of_str (l : n list) : string =
  String.concat "," (List.map (fun c -> Printf.sprintf "%x" (int_of_n c)) l)
let string_of_str (l : n list) : string =
  String.concat "" (List.map (fun c -> let v = int_of_n c in if v < 128 then String.make 1 (Char.chr v) else Printf.sprintf "\\u{%x}" v) l)

(* ---------- zobrist table from the zdump file *)
let zt : ztable =
  let tbl = Array.make (12 * 144) N0 in
  let black = ref N0 and castle = Array.make 4 N0 and ep = Array.make 12 N0 in
  let kind_ix = function "K" -> 0 | "Q" -> 1 | "R" -> 2 | "B" -> 3 | "N" -> 4 | "P" -> 5 | _ -> failwith "kind" in
  let ic = open_in Sys.argv.(1) in
  (try
     while true do
       let l = input_line ic in
       match String.split_on_char ' ' l with
       | ["piece"; c; k; r; cc; h] ->
         let i = (kind_ix k + (if c = "w" then 0 else 6)) * 144 + int_of_string r * 12 + int_of_string cc in
         tbl.(i) <- n_of_hex h
       | ["black"; h] -> black := n_of_hex h
       | ["castle"; w; h] ->
         let i = (match w with "WKS" -> 0 | "WQS" -> 1 | "BKS" -> 2 | "BQS" -> 3 | _ -> failwith "castle") in
         castle.(i) <- n_of_hex h
       | ["ep"; f; h] -> ep.(int_of_string f) <- n_of_hex h
       | _ -> ()
     done
   with End_of_file -> close_in ic);
  let kix = function King -> 0 | Queen -> 1 | Rook -> 2 | Bishop -> 3 | Knight -> 4 | Pawn -> 5 in
  { z_piece = (fun pc (r, c) ->
        let r = int_of_z r and c = int_of_z c in
        if r < 0 || r > 11 || c < 0 || c > 11 then N0
        else tbl.((kix pc.pkind + (match pc.pcolor with White -> 0 | Black -> 6)) * 144 + r * 12 + c));
    z_black = !black;
    z_castle = (function WKS -> castle.(0) | WQS -> castle.(1) | BKS -> castle.(2) | BQS -> castle.(3));
    z_ep = (fun f -> let f = int_of_z f in if f < 0 || f > 11 then N0 else ep.(f)) }

(* ---------- canonical printing *)
let piece_char (p : piece) : char =
  let c = (match p.pkind with Pawn -> 'p' | Knight -> 'n' | Bishop -> 'b' | Rook -> 'r' | Queen -> 'q' | King -> 'k') in
  match p.pcolor with White -> Char.uppercase_ascii c | Black -> c
let sq_char = function Empty -> '.' | Boundary -> 'x' | Full p -> piece_char p
let pt (r, c) = Printf.sprintf "%d,%d" (int_of_z r) (int_of_z c)
let b01 b = if b then "1" else "0"

let rec_of (b : boardState) : string =
  let cells = String.of_seq (List.to_seq (List.map sq_char b.board)) in
  Printf.sprintf "%s|%s|%s|%s|%s|%s%s%s%s|%d|%s|%s|%s"
    cells
    (match b.to_move with White -> "w" | Black -> "b")
    (match b.pawn_double_move with Some p -> pt p | None -> "-")
    (pt b.white_king_location) (pt b.black_king_location)
    (b01 b.wks) (b01 b.wqs) (b01 b.bks) (b01 b.bqs)
    (int_of_z b.order_heuristic)
    (match b.last_move with Some (a, c) -> pt a ^ "," ^ pt c | None -> "-")
    (match b.pawn_promotion with Some p -> String.make 1 (piece_char p) | None -> "-")
    (hex_of_n b.zobrist_key)

let proj_nokey (p : position) : string =
  let pl = String.of_seq (List.to_seq (List.map (function Some pc -> piece_char pc | None -> '.') p.pos_pl)) in
  Printf.sprintf "%s/%s/%s%s%s%s/%s" pl
    (match p.pos_stm with White -> "w" | Black -> "b")
    (b01 p.pos_wk) (b01 p.pos_wq) (b01 p.pos_bk) (b01 p.pos_bq)
    (match p.pos_ep with Some (f, r) -> Printf.sprintf "%d,%d" (int_of_z f) (int_of_z r) | None -> "-")
let proj_of (p : position) : string = proj_nokey p ^ "#" ^ hex_of_n (hash zt p)

let sq_text (f, r) = Printf.sprintf "%c%c" (Char.chr (97 + int_of_z f)) (Char.chr (49 + int_of_z r))
let kind_letter = function Pawn -> "p" | Knight -> "n" | Bishop -> "b" | Rook -> "r" | Queen -> "q" | King -> "k"
let move_text (m : move) : string =
  sq_text m.mfrom ^ sq_text m.mto ^ (match m.mpromo with Some k -> kind_letter k | None -> "")
let parse_move_text (s : string) : move option =
  if String.length s < 4 then None
  else
    let sqv i = (z_of_int (Char.code s.[i] - 97), z_of_int (Char.code s.[i+1] - 49)) in
    let promo = if String.length s >= 5 then
        Some (match s.[4] with 'n' -> Knight | 'b' -> Bishop | 'r' -> Rook | _ -> Queen) else None in
    Some { mfrom = sqv 0; mto = sqv 2; mpromo = promo }

let text_of_res (r : str res) : string =
  match r with Ok s -> string_of_str s | Err _ -> "ERR" | Panic _ -> "PANIC"

let model_uci (s : boardState) : string =
  match best_move_text s with Ok t -> string_of_str t | _ -> "none"

let chk_model (b : boardState) = b01 (is_check b White) ^ b01 (is_check b Black)
let chk_spec (p : position) = b01 (in_check p.pos_pl White) ^ b01 (in_check p.pos_pl Black)

let table_dump (t : dtable) : string =
  let l = List.map (fun (k, c) -> (hex_of_n k, int_of_z c)) t in
  let l = List.sort compare l in
  String.concat "," (List.map (fun (k, c) -> Printf.sprintf "%s:%d" k c) l)

let table_dump_nz (t : dtable) : string = table_dump (List.filter (fun (_, c) -> int_of_z c <> 0) t)

let mode_of s = if s = "C" then CapturesOnly else AllMoves

(* ---------- commands *)
let out = Buffer.create 65536
let emit tag s = Buffer.add_string out tag; Buffer.add_char out ' '; Buffer.add_string out s; Buffer.add_char out '\n'

let split_words s = List.filter (fun w -> w <> "") (String.split_on_char ' ' s)

let do_gen fields =
  let mode = mode_of (List.nth fields 1) in
  let fen = List.nth fields 2 in
  let chain = if List.length fields > 3 then split_words (List.nth fields 3) else [] in
  match from_fen zt (str_of_string fen) with
  | Err _ | Panic _ -> emit "M" "gen badfen"; emit "S" "gen badfen"
  | Ok root ->
    (* model: follow the chain through the model's own generator *)
    let rec follow cur = function
      | [] -> Stdlib.Ok cur
      | mv :: rest ->
        (match List.find_opt (fun s -> model_uci s = mv) (generate_moves zt cur mode) with
         | Some s -> follow s rest
         | None -> Stdlib.Error mv) in
    (match follow root chain with
     | Stdlib.Error mv -> emit "M" ("gen nochain:" ^ mv)
     | Stdlib.Ok cur ->
       let succ = generate_moves zt cur mode in
       emit "M" (Printf.sprintf "gen root=%s chk=%s n=%d succ=%s" (rec_of cur) (chk_model cur) (List.length succ)
                   (String.concat ";" (List.map (fun s -> rec_of s ^ "@" ^ text_of_res (best_move_text s)) succ))));
    (* spec: follow the chain through the rules *)
    let gen_spec p = (match mode with AllMoves -> legal_moves p | CapturesOnly -> legal_captures p) in
    let rec sfollow p = function
      | [] -> Stdlib.Ok p
      | mv :: rest ->
        (match List.find_opt (fun m -> move_text m = mv) (gen_spec p) with
         | Some m -> sfollow (apply p m) rest
         | None -> Stdlib.Error mv) in
    (match sfollow (abs0 root) chain with
     | Stdlib.Error mv -> emit "S" ("gen nochain:" ^ mv)
     | Stdlib.Ok p ->
       let ms = List.map (fun m -> move_text m ^ "=" ^ proj_of (apply p m)) (gen_spec p) in
       let ms = List.sort compare ms in
       emit "S" (Printf.sprintf "gen root=%s chk=%s moves=%s" (proj_of p) (chk_spec p) (String.concat "," ms)))

let king_pts (b : boardState) = pt b.white_king_location ^ "/" ^ pt b.black_king_location

let do_replay fields =
  let fen = List.nth fields 1 in
  let chain = if List.length fields > 2 then split_words (List.nth fields 2) else [] in
  match from_fen zt (str_of_string fen) with
  | Err _ | Panic _ -> emit "M" "replay badfen"; emit "S" "replay badfen"
  | Ok root ->
    let rec follow cur = function
      | [] -> Stdlib.Ok cur
      | mv :: rest ->
        (match List.find_opt (fun s -> model_uci s = mv) (generate_moves zt cur AllMoves) with
         | Some s -> follow s rest
         | None -> Stdlib.Error mv) in
    (match follow root chain with
     | Stdlib.Error mv -> emit "M" ("replay nochain:" ^ mv); emit "S" ("replay nochain:" ^ mv)
     | Stdlib.Ok cur ->
       let succ = generate_moves zt cur AllMoves in
       let bad = List.filter_map (fun s ->
           match best_move_text s with
           | Ok text ->
             (match make_move zt cur text with
              | Ok b2 ->
                if proj_of (abs0 b2) = proj_of (abs0 s) && hex_of_n b2.zobrist_key = hex_of_n s.zobrist_key && king_pts b2 = king_pts s then None
                else Some (string_of_str text ^ ":" ^ proj_nokey (abs0 b2) ^ "#" ^ hex_of_n b2.zobrist_key ^ "!=" ^ proj_nokey (abs0 s) ^ "#" ^ hex_of_n s.zobrist_key)
              | _ -> Some (string_of_str text ^ ":PANIC"))
           | _ -> Some "notext") succ in
       emit "M" (Printf.sprintf "replay n=%d bad=%s" (List.length succ) (String.concat "," bad));
       emit "S" "replay bad=")

let do_fen fields =
  let s = str_of_hexlist (List.nth fields 1) in
  match from_fen zt s with
  | Ok b -> emit "M" ("fen Ok " ^ rec_of b); emit "S" ("fen Ok " ^ proj_of (abs0 b))
  | Err _ -> emit "M" "fen Err"; emit "S" "fen Err"
  | Panic _ -> emit "M" "fen Panic"; emit "S" "fen Panic"

let do_eval fields =
  match from_fen zt (str_of_string (List.nth fields 1)) with
  | Ok b ->
      let tw = with_to_move b (opposite b.to_move) in
      let s = Printf.sprintf "eval %d twin %d again %d fields %d" (int_of_z (get_evaluation b)) (int_of_z (get_evaluation tw)) (int_of_z (get_evaluation b)) (int_of_z (get_evaluation b)) in
      emit "M" s; emit "S" s
  | _ -> emit "M" "eval badfen"; emit "S" "eval badfen"

let do_chk fields =
  match from_fen zt (str_of_string (List.nth fields 1)) with
  | Ok b -> emit "M" ("chk " ^ chk_model b); emit "S" ("chk " ^ chk_spec (abs0 b))
  | _ -> emit "M" "chk badfen"; emit "S" "chk badfen"

let do_pos fields =
  let toks = String.split_on_char ' ' (List.nth fields 1) in
  let cmds = List.map str_of_string toks in
  (match play_out_position zt cmds with
   | Ok (b, t) -> emit "M" (Printf.sprintf "pos Ok %s table=%s" (rec_of b) (table_dump t))
   | _ -> emit "M" "pos Panic");
  (* spec replay: the rules applied to the start position, counts by position equality *)
  let start_fen =
    (match toks with
     | _ :: "fen" :: a :: b :: c :: d :: e :: f :: _ -> String.concat " " [a; b; c; d; e; f]
     | _ -> string_of_str dEFAULT_FEN_STRING) in
  let rec after = function [] -> [] | "moves" :: r -> r | _ :: r -> after r in
  let mvs = after toks in
  (match from_fen zt (str_of_string start_fen) with
   | Ok b0 ->
     let p0 = abs0 b0 in
     let rec go p acc = function
       | [] -> Some (p, List.rev acc)
       | mv :: rest ->
         (match parse_move_text mv with
          | None -> None
          | Some m -> let p' = apply p m in go p' (proj_nokey p' :: acc) rest) in
     (match go p0 [proj_nokey p0] mvs with
      | None -> emit "S" "pos Panic"
      | Some (p, hist) ->
        let tbl = Hashtbl.create 64 in
        List.iter (fun k -> Hashtbl.replace tbl k (1 + (try Hashtbl.find tbl k with Not_found -> 0))) hist;
        let counts = List.sort compare (Hashtbl.fold (fun _ c acc -> c :: acc) tbl []) in
        emit "S" (Printf.sprintf "pos Ok %s counts=%s" (proj_of p) (String.concat "," (List.map string_of_int counts))))
   | _ -> emit "S" "pos Panic")

(* ---------- search, time control, input cleaning *)
let osort_of_log (log : string list array) : n -> boardState list -> boardState list =
  fun i l ->
    let i = int_of_n i in
    if i >= Array.length log then stable_sort_desc l
    else begin
      let remaining = ref l in
      let ok = ref true in
      let out = List.map (fun text ->
          let rec take acc = function
            | [] -> ok := false; None
            | x :: t -> if model_uci x = text then (remaining := List.rev_append acc t; Some x) else take (x :: acc) t in
          take [] !remaining) log.(i) in
      if !ok && !remaining = [] then List.filter_map (fun x -> x) out else stable_sort_desc l
    end

let parse_orders (s : string) : string list array =
  if s = "" then [||]
  else Array.of_list (List.map split_words (String.split_on_char ';' s))

let do_search fields =
  let toks = String.split_on_char ' ' (List.nth fields 1) in
  let k = (match List.nth fields 2 with "inf" -> None | v -> Some (n_of_int (int_of_string v))) in
  let log = parse_orders (if List.length fields > 3 then List.nth fields 3 else "") in
  match play_out_position zt (List.map str_of_string toks) with
  | Ok (b, t) ->
    (match get_best_move zt (osort_of_log log) k (nat_of_int 400) b t with
     | Ok (ev, st) ->
       let sends = List.filter_map (function Send s -> Some (text_of_res (best_move_text s) ^ "#" ^ proj_of (abs0 s)) | Info (_, _, _) -> None) ev in
       let infos = List.filter_map (function Info (_, _, l) -> Some (string_of_str l) | Send _ -> None) ev in
       let line = Printf.sprintf "search panic=0 consulted=%d sends=%s infos=%s restored=%s%s"
           (int_of_n st.clock) (String.concat ";" sends) (String.concat "|" infos)
           (if table_dump_nz st.table = table_dump_nz t then "1" else "0")
           (if st.sort_ok then "" else " SORT-LOG-INVALID") in
       emit "M" line; emit "S" line
     | Err _ -> emit "M" "search OUT-OF-FUEL"; emit "S" "search OUT-OF-FUEL"
     | Panic _ -> emit "M" "search panic=1"; emit "S" "search panic=1")
  | _ -> emit "M" "search PANIC"; emit "S" "search PANIC"

let do_slice fields =
  let toks = String.split_on_char ' ' (List.nth fields 1) in
  let c = if List.nth fields 2 = "w" then White else Black in
  match parse_go_command (List.map str_of_string toks) with
  | Ok gt ->
    let line = Printf.sprintf "slice wtime=%s btime=%s winc=%s binc=%s mtg=%s slice=%s"
        (dec_of_z gt.wtime) (dec_of_z gt.btime) (dec_of_z gt.winc) (dec_of_z gt.binc)
        (match gt.movestogo with Some m -> dec_of_z m | None -> "-") (dec_of_z (calculate_time_slice gt c)) in
    emit "M" line; emit "S" line
  | _ -> emit "M" "slice Panic"; emit "S" "slice Panic"

let do_clean fields =
  let s = str_of_hexlist (List.nth fields 1) in
  let line = "clean " ^ hexlist_of_str (clean_input s) in
  emit "M" line; emit "S" line

(* ---------- oracles: shallow minimax value, mate solver *)
let score_text (v : int) : string =
  let mate = int_of_z mATE_SCORE and w = int_of_z mATE_WINDOW in
  if v >= mate - w then Printf.sprintf "mate %d" ((mate - v + 1) / 2)
  else if v <= - mate + w then Printf.sprintf "mate %d" ((mate + v) / (-2))
  else Printf.sprintf "cp %d" v

let do_oracle fields =
  let toks = String.split_on_char ' ' (List.nth fields 1) in
  let maxd = int_of_string (List.nth fields 2) in
  match play_out_position zt (List.map str_of_string toks) with
  | Ok (b, t) ->
    let parts = ref [] in
    for d = 1 to maxd do
      let rv = root_values zt (nat_of_int 400) b (z_of_int d) t in
      let vals = List.filter_map (fun (m, v) -> match v with Some v -> Some (model_uci m, int_of_z v) | None -> None) rv in
      if List.length vals <> List.length rv || vals = [] then parts := (Printf.sprintf "d%d=?" d) :: !parts
      else begin
        let best = List.fold_left (fun a (_, v) -> max a v) min_int vals in
        let arg = List.filter_map (fun (m, v) -> if v = best then Some (String.sub m 0 4) else None) vals in
        let full = List.filter_map (fun (m, v) -> if v = best then Some m else None) vals in
        parts := (Printf.sprintf "d%d=%s:%s;%s" d (score_text best) (String.concat "," arg) (String.concat "," full)) :: !parts
      end
    done;
    let line = "oracle " ^ String.concat " " (List.rev !parts) in
    emit "M" line; emit "S" line
  | _ -> emit "M" "oracle PANIC"; emit "S" "oracle PANIC"

let do_mate fields =
  (* mate <position cmd> <n>: can the side to move force mate in <= n / is it mated within n *)
  let toks = String.split_on_char ' ' (List.nth fields 1) in
  let n = int_of_string (List.nth fields 2) in
  match play_out_position zt (List.map str_of_string toks) with
  | Ok (b, _) ->
    let p = abs0 b in
    let line = Printf.sprintf "mate in=%s mated=%s stalemate=%s checkmate=%s"
        (b01 (mate_in (nat_of_int n) p)) (b01 (mated_in (nat_of_int n) p)) (b01 (is_stalemate p)) (b01 (is_checkmate p)) in
    emit "M" line; emit "S" line
  | _ -> emit "M" "mate PANIC"; emit "S" "mate PANIC"

(* ---------- generation of cases from the specification (never from the model of the code) *)
let rng = ref 12345
let next_rand () = rng := (!rng * 1103515245 + 12345) land 0x3fffffff; (!rng lsr 8)
let fen_of_pos p = string_of_str (print_fen p Z0 (z_of_int 1))

let move_tags (p : position) (m : move) : string list =
  let t = ref [] in
  if is_capture p m then t := "capture" :: !t;
  (match m.mpromo with Some _ -> t := "promo" :: !t | None -> ());
  (match pget p.pos_pl m.mfrom with
   | Some pc ->
     (match pc.pkind with
      | King -> if abs (int_of_z (fst m.mto) - int_of_z (fst m.mfrom)) = 2 then t := "castle" :: !t else t := "kingmove" :: !t
      | Rook -> t := "rookmove" :: !t
      | Pawn ->
        if abs (int_of_z (snd m.mto) - int_of_z (snd m.mfrom)) = 2 then t := "double" :: !t;
        if is_capture p m && pget p.pos_pl m.mto = None then t := "ep" :: !t
      | _ -> ())
   | None -> ());
  !t

let weight tags =
  List.fold_left (fun w t -> w + (match t with
      | "ep" -> 40 | "castle" -> 25 | "promo" -> 8 | "capture" -> 3 | "double" -> 4 | "rookmove" -> 1 | "kingmove" -> 1 | _ -> 0)) 1 tags

let do_playout fields =
  let fen = List.nth fields 1 in
  rng := (int_of_string (List.nth fields 2)) land 0x3fffffff;
  let n = int_of_string (List.nth fields 3) in
  let only_caps = (List.length fields > 4 && List.nth fields 4 = "C") in
  match from_fen zt (str_of_string fen) with
  | Ok b when legal_position (abs0 b) ->
    let p0 = abs0 b in
    let rec go p moves k last_tags =
      let ms = legal_moves p in
      let tags = (if ms = [] then ["terminal"] else []) @ (if in_check p.pos_pl p.pos_stm then ["incheck"] else []) @ last_tags in
      emit "G" (Printf.sprintf "%s\t%s\t%s" (fen_of_pos p) (String.concat " " (List.rev moves)) (String.concat "," tags));
      let ms = if only_caps then List.filter (is_capture p) ms else ms in
      if k > 0 && ms <> [] then begin
        let tagged = List.map (fun m -> (m, move_tags p m)) ms in
        let total = List.fold_left (fun a (_, t) -> a + weight t) 0 tagged in
        let r = ref ((next_rand ()) mod total) in
        let chosen = ref (List.hd tagged) in
        (try List.iter (fun (m, t) -> let w = weight t in if !r < w then (chosen := (m, t); raise Exit) else r := !r - w) tagged
         with Exit -> ());
        let (m, t) = !chosen in
        go (apply p m) (move_text m :: moves) (k - 1) t
      end in
    go p0 [] n []
  | _ -> emit "G" "illegal-root"

let do_roots fields =
  let toks = String.split_on_char ' ' (List.nth fields 1) in
  let cmds = List.map str_of_string toks in
  let capt = (List.length fields > 2 && List.nth fields 2 = "C") in
  (match play_out_position zt cmds with
   | Ok (b, _) -> emit "M" ("roots " ^ String.concat "," (List.sort compare (List.map model_uci (generate_moves zt b (if capt then CapturesOnly else AllMoves)))))
   | _ -> emit "M" "roots PANIC");
  (* spec: the rules applied to the start position, then the legal moves of the position reached *)
  let start_fen =
    (match toks with
     | _ :: "fen" :: a :: b :: c :: d :: e :: f :: _ -> String.concat " " [a; b; c; d; e; f]
     | _ -> string_of_str dEFAULT_FEN_STRING) in
  let rec after = function [] -> [] | "moves" :: r -> r | _ :: r -> after r in
  (match from_fen zt (str_of_string start_fen) with
   | Ok b0 ->
     let rec go p = function
       | [] -> Some p
       | mv :: rest -> (match parse_move_text mv with None -> None | Some m -> go (apply p m) rest) in
     (match go (abs0 b0) (after toks) with
      | None -> emit "S" "roots PANIC"
      | Some p -> emit "S" ("roots " ^ String.concat "," (List.sort compare (List.map move_text (if capt then legal_captures p else legal_moves p)))))
   | _ -> emit "S" "roots PANIC")

let do_legal fields =
  match from_fen zt (str_of_string (List.nth fields 1)) with
  | Ok b ->
    let p = abs0 b in
    if legal_position p then
      (* H: the hypothesis of the C01/C02/C13 theorems, by its two executable tests *)
      emit "L" (Printf.sprintf "1 %d %s H%d%d" (List.length (legal_moves p)) (if in_check p.pos_pl p.pos_stm then "check" else "quiet")
                  (if pos_ok1b b then 1 else 0) (if rep_legalb b then 1 else 0))
    else emit "L" "0"
  | _ -> emit "L" "0"

let () =
  (try
     while true do
       let line = input_line stdin in
       if line <> "" then begin
         let fields = String.split_on_char '\t' line in
         (try
            (match List.hd fields with
             | "gen" -> do_gen fields
             | "fen" -> do_fen fields
             | "replay" -> do_replay fields
             | "eval" -> do_eval fields
             | "chk" -> do_chk fields
             | "pos" -> do_pos fields
             | "roots" -> do_roots fields
             | "playout" -> do_playout fields
             | "legal" -> do_legal fields
             | "search" -> do_search fields
             | "slice" -> do_slice fields
             | "oracle" -> do_oracle fields
             | "mate" -> do_mate fields
             | "clean" -> do_clean fields
             | _ -> emit "M" "unknown"; emit "S" "unknown")
          with e -> emit "M" ("DRIVER-EXCEPTION " ^ Printexc.to_string e); emit "S" "DRIVER-EXCEPTION");
         if Buffer.length out > 60000 then (print_string (Buffer.contents out); Buffer.clear out)
       end
     done
   with End_of_file -> ());
  print_string (Buffer.contents out)
