(* placeholder module kept for the build script *)
let unused = ()
