(* further commands (search, slice, clean, ...) *)
let dispatch _zt (emit : string -> string -> unit) (_fields : string list) : unit =
  emit "M" "unknown"; emit "S" "unknown"
